#!/bin/bash
# Confirms each sub-agent change independently: (a) patch applies, (b) existing suite passes with it, (c) demo fails with it,
# (d) demo passes without it. Results -> /tmp/wt/confirm.log ; confirmed ones copied to /verif/seeded/<id>-<n>/
WT=/tmp/seedwt
rm -rf $WT; git -C /repo worktree prune; git -C /repo worktree add -q --detach $WT HEAD || exit 1
export CARGO_TARGET_DIR=/tmp/seedwt_target CARGO_NET_OFFLINE=true
LOG=/tmp/wt/confirm.log; : > $LOG
cd $WT
for d in /tmp/wt/outs/C*; do
  id=$(basename $d)
  for n in ${NS:-1 2}; do
    pf=$d/m$n.patch.diff; demo=$d/m${n}_demo.rs
    [ -f $pf ] || continue
    git checkout -q -- . ; git clean -fdq tests src
    name=demo_${id}_m$n
    cp $demo tests/$name.rs
    # copy any auxiliary files the demo includes
    for aux in $d/*.json $d/*.bin $d/*.txt; do [ -f "$aux" ] && cp "$aux" tests/ 2>/dev/null; done
    base=$(cargo test --offline --test $name 2>&1 | grep -E "^test result" | tail -1)
    if ! git apply $pf 2>/dev/null; then echo "$id m$n APPLY-FAIL" >> $LOG; continue; fi
    withp=$(cargo test --offline --test $name 2>&1 | grep -E "^test result" | tail -1)
    mv tests/$name.rs /tmp/$name.rs.hold
    suite=$(cargo test --offline --no-fail-fast 2>&1 | grep -E "^test result" | tr '\n' ';')
    mv /tmp/$name.rs.hold tests/$name.rs
    echo "$id m$n | clean-demo: $base | patched-demo: $withp | suite-with-patch: $suite" >> $LOG
  done
done
git checkout -q -- . ; git clean -fdq tests src
cd /; git -C /repo worktree remove --force $WT; rm -rf /tmp/seedwt_target
echo DONE >> $LOG
