#!/usr/bin/env python3
"""Run the registered quick checks against every seeded change, on a scratch copy of /repo (never /repo itself).
usage: tools/mutant_matrix.py [ids...]   -> writes /verif/seeded/MATRIX.json and prints a table"""
import os, sys, json, subprocess, shutil, time
V = os.path.dirname(os.path.dirname(os.path.abspath(__file__)))  # the /verif snapshot this script lives in
ids = sys.argv[1:] or sorted(os.listdir(V + '/seeded'))
ids = [i for i in ids if os.path.isdir(V + '/seeded/' + i)]
extra = json.load(open(V + '/seeded/extra_props.json')) if os.path.exists(V + '/seeded/extra_props.json') else {}
res = json.load(open(V + '/seeded/MATRIX.json')) if os.path.exists(V + '/seeded/MATRIX.json') else {}
for mid in ids:
    prop = mid.split('-')[0]
    props = [prop] + extra.get(mid, [])
    work = '/dev/shm/mm_repo_%d' % os.getpid()
    shutil.rmtree(work, ignore_errors=True)
    subprocess.run(['rsync', '-a', '--exclude', 'target', '--exclude', '.git', '--exclude', 'fuzz', '--exclude', 'wasm', '--exclude', 'dudect',
                    '--exclude', 'ct_cm4', '/repo/', work + '/'], check=True)
    p = subprocess.run(['git', 'apply', V + '/seeded/' + mid + '/patch.diff'], cwd=work, capture_output=True, text=True)
    if p.returncode != 0:
        res[mid] = dict(error='patch does not apply: ' + p.stderr[-300:])
        print(mid, 'PATCH-FAIL')
        continue
    for pr in props:
        t0 = time.time()
        q = subprocess.run([V + '/check', pr, '--repo', work, '--no-canary'] + (['--no-kani'] if os.environ.get('MM_NO_KANI') else []),
                           capture_output=True, text=True, timeout=3000)
        out = q.stdout + q.stderr
        lines = [l for l in out.split('\n') if l.startswith(('VIOLATION', 'UNDECIDED', 'TOOL-ERROR', 'LOST-ANCHOR', 'OK ', 'KNOWN-FINDING', '  failed obligation'))]
        verdict = 'DETECTED' if q.returncode == 1 else ('undecided' if q.returncode == 2 else ('MISSED' if q.returncode == 0 else 'rc%d' % q.returncode))
        res.setdefault(mid, {})[pr] = dict(rc=q.returncode, verdict=verdict, wall=round(time.time() - t0, 1), lines=[l[:400] for l in lines][:12])
        print(mid, pr, verdict, '%.0fs' % (time.time() - t0), '|', (lines[0][:160] if lines else out[-200:].replace('\n', ' ')))
        sys.stdout.flush()
    json.dump(res, open(os.environ.get('MM_OUT') or (V + '/seeded/MATRIX.json'), 'w'), indent=1)  # MM_OUT: private result file, so that several instances can run side by side (merge the ids afterwards)
shutil.rmtree(work, ignore_errors=True)
