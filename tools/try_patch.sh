#!/bin/bash
# usage: tools/try_patch.sh <patch.diff> <PROP> [PROP...]   — apply to /repo, run checks, always revert
P=$1; shift
git -C /repo apply "$P" || { echo "patch does not apply"; exit 3; }
for id in "$@"; do
  echo "=== $id with $(basename $(dirname $P))/$(basename $P)"
  timeout 1500 /verif/check $id ${VP_ARGS:---no-canary} 2>&1 | tail -${VP_TAIL:-8}
  echo "exit=$?"
done
git -C /repo checkout -- . 
git -C /repo status --short | head
