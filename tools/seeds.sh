#!/bin/bash
# tools/seeds.sh <module> <function> [seeds...] : build the mirror once, verify one function under several Z3 seeds in parallel; print rlimit/time
D=${VP_SCRATCH:-/dev/shm/vp}; mkdir -p $D
M=$1; F=$2; shift 2
python3 - <<PY
import sys; sys.path.insert(0,'/verif')
from vp_lib.mirror import build_mirror
b=build_mirror(repo='${VP_REPO:-/repo}', out_path='$D/mirror.rs')
if b.problems: print('PROBLEMS', b.problems)
s=open('$D/mirror.rs').read().split('\n')
s=[l.replace('assert(','assume(',1) if '/* KF:' in l else l for l in s]
open('$D/mirror.rs','w').write('\n'.join(s))
PY
cd $D
for seed in ${@:-0 1 2 3}; do
  ( verus mirror.rs --verify-only-module $M --verify-function $F --smt-option smt.random_seed=$seed --output-json --time-expanded ${VP_EXTRA} > $D/seed_$seed.json 2> $D/seed_$seed.err;
    python3 - <<PY
import json
t=open('$D/seed_$seed.json').read(); j=json.loads(t[t.index('{'):])
vr=j['verification-results']
fb=[f for m in j['times-ms']['smt']['smt-run-module-times'] for f in m['function-breakdown'] if f['function'].endswith('$F')]
errs=[l for l in open('$D/seed_$seed.err') if l.startswith('error')]
print('seed $seed verified=%s errors=%s'%(vr.get('verified'),vr.get('errors')), [(f['time'], f['rlimit'], f['success']) for f in fb], errs[:2])
PY
  ) &
done; wait
