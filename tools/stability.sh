#!/bin/bash
# run the full (known-findings-assumed) mirror under several Z3 seeds; report functions that fail under any seed
V=$(cd "$(dirname "$0")/.." && pwd); D=/dev/shm/vp_stab_$$; mkdir -p $D; cd $D
python3 - <<PY
import sys,re; sys.path.insert(0,'$V')
from vp_lib.mirror import build_mirror
b=build_mirror(repo='/repo', vdir='$V', out_path='$D/mirror.rs')
s=open('$D/mirror.rs').read().split('\n')
s=[l.replace('assert(','assume(',1) if '/* KF:' in l else l for l in s]
open('$D/mirror.rs','w').write('\n'.join(s))
PY
for seed in ${SEEDS:-0 1 2 3 4}; do
  echo "== seed $seed"; verus mirror.rs --num-threads ${THREADS:-8} --rlimit ${RLIMIT:-30} --smt-option smt.random_seed=$seed 2>&1 | grep -E "^error|verification results" -A3 | grep -E "^error|verification results|^ *[0-9]+ \|" | head -20
done

rm -rf $D
