#!/bin/bash
# dev helper: build mirror and run verus, printing compact errors. usage: tools/dev.sh [verus args...]
set -e
D=${VP_SCRATCH:-/dev/shm/vp}
mkdir -p $D
python3 - <<PY
import sys; sys.path.insert(0,'/verif')
from vp_lib.mirror import build_mirror
b=build_mirror(repo='${VP_REPO:-/repo}', out_path='$D/mirror.rs')
if b.problems: print('PROBLEMS', b.problems)
import os
if not os.environ.get('VP_KEEP_KF'):
    s=open('$D/mirror.rs').read().split('\n')
    s=[l.replace('assert(','assume(',1) if '/* KF:' in l else l for l in s]
    open('$D/mirror.rs','w').write('\n'.join(s))
PY
cd $D
verus mirror.rs --multiple-errors 10 --num-threads 16 "$@" 2>&1 | grep -vE '^\s*$' | grep -E -A7 "^(error|warning: unused|note: (while|recom))|verification results" | grep -vE "^\s+\|$" | head -${VP_HEAD:-150}
