#!/bin/bash
# tools/confirm_new.sh <PROP> <n>... : confirm sub-agent changes /tmp/wt/<PROP>/out/m<n>.diff independently, then file them under seeded/<PROP>-m<n>/
# (a) patch applies, (b) existing suite passes with it, (c) demo passes without it, (d) demo fails with it
P=$1; shift
WT=/tmp/seedwt_$P
rm -rf $WT; git -C /repo worktree prune; git -C /repo worktree add -q --detach $WT HEAD || exit 1
export CARGO_TARGET_DIR=/tmp/seedwt_target_$P CARGO_NET_OFFLINE=true
cd $WT
for n in "$@"; do
  d=/tmp/wt/$P/out; pf=$d/m$n.diff; demo=$d/m${n}_demo.rs
  [ -f $pf ] || { echo "$P m$n: no patch"; continue; }
  git checkout -q -- . ; git clean -fdq tests src
  placement=$(python3 -c "import json;print(json.load(open('$d/m${n}_meta.json')).get('demo_placement',''))" 2>/dev/null)
  name=demo_${P}_m$n
  if [ -n "$placement" ] && ! echo "$placement" | grep -qi "tests/"; then
    base="(unit-test demo: placement '$placement' - not run automatically)"; withp=$base
    git apply $pf || { echo "$P m$n APPLY-FAIL"; continue; }
  else
    cp $demo tests/$name.rs
    base=$(cargo test --offline --test $name 2>&1 | grep -E "^test result" | tail -1)
    git apply $pf || { echo "$P m$n APPLY-FAIL"; continue; }
    withp=$(cargo test --offline --test $name 2>&1 | grep -E "^test result|panicked" | tail -2 | tr '\n' ' ')
    rm -f tests/$name.rs
  fi
  suite=$(cargo test --offline --workspace --no-fail-fast 2>&1 | grep -E "^test result" | awk '{p+=$4; f+=$6} END{print p" passed, "f" failed"}')
  echo "$P m$n | clean-demo: $base | patched-demo: $withp | suite-with-patch: $suite"
  o=/verif/seeded/$P-m$n; mkdir -p $o; cp $pf $o/patch.diff; cp $demo $o/demo.rs
  python3 - <<PY
import json
m=json.load(open('$d/m${n}_meta.json'))
m.update(property='$P', author='fresh sub-agent (property text + scratch worktree only)', confirmed_by_me={'clean_demo': '''$base''', 'patched_demo': '''$withp''', 'suite_with_patch': '''$suite'''})
json.dump(m, open('$o/meta.json','w'), indent=1)
PY
done
git checkout -q -- . ; git clean -fdq tests src
cd /; git -C /repo worktree remove --force $WT; rm -rf /tmp/seedwt_target_$P
