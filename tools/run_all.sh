#!/bin/bash
# run every claimed check on /repo as it is; summary at the end
cd "$(dirname "$0")/.."
for id in $(python3 -c "import json; print(' '.join(sorted(json.load(open('props.json')))))"); do
  s=$(date +%s); out=$(timeout 3000 ./check $id --tier ${1:-quick} 2>&1 | tail -4); rc=$?
  echo "== $id $(( $(date +%s) - s ))s :: $(echo "$out" | tail -1 | cut -c1-200)"
  echo "$out" | grep -E "VIOLATION|UNDECIDED|TOOL-ERROR|KNOWN" | cut -c1-300
done
