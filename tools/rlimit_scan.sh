#!/bin/bash
# whole mirror under several Z3 seeds; per function: max resource use and spread. usage: tools/rlimit_scan.sh [seeds...]
V=$(cd "$(dirname "$0")/.." && pwd); D=/dev/shm/vp_scan_$$; mkdir -p $D; cd $D
python3 - <<PY
import sys; sys.path.insert(0,'$V')
from vp_lib.mirror import build_mirror
b=build_mirror(repo='/repo', vdir='$V', out_path='$D/mirror.rs')
s=open('$D/mirror.rs').read().split('\n')
s=[l.replace('assert(','assume(',1) if '/* KF:' in l else l for l in s]
open('$D/mirror.rs','w').write('\n'.join(s))
PY
for seed in ${@:-0 1 2 3 4 5}; do
  verus mirror.rs --num-threads 16 --rlimit 200 --smt-option smt.random_seed=$seed --output-json --time-expanded > out_$seed.json 2> err_$seed.txt
done
python3 - <<PY
import json, glob, collections
agg=collections.defaultdict(list)
for f in sorted(glob.glob('$D/out_*.json')):
    t=open(f).read(); j=json.loads(t[t.index('{'):])
    per=collections.defaultdict(int)
    for m in j['times-ms']['smt']['smt-run-module-times']:
        for fb in m['function-breakdown']:
            per[fb['function']]+=fb['rlimit']
            if not fb['success']: print('FAILED', f, fb['function'])
    for k,v in per.items(): agg[k].append(v)
rows=sorted(((max(v), min(v), k) for k,v in agg.items()), reverse=True)
print('function: max / min resource units over seeds (top 25)')
for mx,mn,k in rows[:25]: print('%12d %12d  x%.1f  %s' % (mx, mn, mx/max(mn,1), k))
PY
rm -rf $D
