#!/bin/bash
# usage: tools/mkmut.sh <seed-id>  -> scratch copy of /repo with the seeded patch applied at /dev/shm/mut_<id>
W=/dev/shm/mut_$1; rm -rf $W; rsync -a --exclude target --exclude .git --exclude fuzz --exclude wasm --exclude dudect --exclude ct_cm4 /repo/ $W/
(cd $W && git apply /verif/seeded/$1/patch.diff) && echo $W
