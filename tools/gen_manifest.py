#!/usr/bin/env python3
"""Regenerate MANIFEST.json from props.json (claimed checks) + na.json (not applicable, with reasons)."""
import json, os
V = '/verif'
props = [json.loads(l) for l in open(V + '/properties.jsonl')]
cfg = json.load(open(V + '/props.json'))
na = json.load(open(V + '/na.json'))
checks = []
for p in props:
    pid = p['id']
    if pid not in cfg:
        continue
    c = cfg[pid]
    checks.append(dict(
        property_id=pid,
        quick_cmd='./check %s --tier quick' % pid,
        thorough_cmd='./check %s --tier thorough' % pid,
        evidence_file='/verif/evidence/%s.json' % pid,
        replay_cmd_template='cat {path}  # replay file names the failed obligation, carries the verifier output and, when Kani produced one, the concrete input and the native test that replays it (vp_lib/replay.py)',
        engine='verus+kani',
        level_claimed=dict(category=c.get('level', 'proof'), text=c['claim'], design_ref=c.get('design_ref', 'DESIGN.md section 4 (%s)' % pid)),
        level_note='; '.join(c.get('assumptions', [])),
        technique=c.get('technique', 'contract-based deductive verification: Verus contracts on functions extracted verbatim from /repo each run; Kani loop-free full-domain harnesses on the real crate for word-level kernels and counterexamples'),
    ))
not_app = [dict(property_id=p['id'], reason=na.get(p['id'], 'check not built yet (see DESIGN.md section 4 for the planned decision)')) for p in props if p['id'] not in cfg]
m = dict(
    version=1,
    setup_cmd='true',
    hooks=dict(guard='cfg(kani) — only in the scratch copy the checks make; /repo carries no hook commit',
               enable='checks rsync /repo to a scratch directory, append `#[cfg(kani)] mod verif_kani;` to the copy\'s lib.rs and run cargo kani there; the Verus mirror is re-extracted from /repo/src on every run',
               baseline_off_cmd='cd /repo && cargo test --workspace --no-fail-fast --offline',
               source_commits=[], add_only=True),
    engines=[dict(name='verus-mirror', path='/verif/vp_lib/mirror.py', serves_properties=sorted(cfg.keys()),
                  kind_free_text='mechanical extraction of /repo/src functions + spliced contracts (contracts/*.vc), verified by Verus single-file mode'),
             dict(name='kani-harnesses', path='/verif/kani/verif_kani.rs', serves_properties=sorted(cfg.keys()),
                  kind_free_text='loop-free full-domain Kani harnesses against spec-literal FIPS 204 definitions, on a scratch copy of the real crate')],
    checks=checks,
    notes='fix commits in /repo: 45ffe01 (F2, bit_unpack range check), d7db243 (F1, inv_ntt copy-in reduction); see known_findings.json and DESIGN.md section 5.',
    not_applicable=not_app,
)
json.dump(m, open(V + '/MANIFEST.json', 'w'), indent=1)
print('checks:', [c['property_id'] for c in checks], 'n/a:', [x['property_id'] for x in not_app])
