#!/bin/bash
# run the thorough tier of the given (default: all claimed) checks on /repo as it is
cd "$(dirname "$0")/.."
ids=${@:-$(python3 -c "import json; print(' '.join(sorted(json.load(open('props.json')))))")}
for id in $ids; do
  s=$(date +%s); out=$(timeout 6000 ./check $id --tier thorough 2>&1 | tail -4)
  echo "== $id $(( $(date +%s) - s ))s :: $(echo "$out" | tail -1 | cut -c1-200)"
  echo "$out" | grep -E "VIOLATION|UNDECIDED|TOOL-ERROR|KNOWN" | cut -c1-300
done
