    // ---- FIPS 204 Algorithm 8 (Verify_internal), steps 9-13, over the precomputed key struct
    // x * 2^-32 mod q  (2^32 * 8_265_825 == 1 mod q)
    pub open spec fn demont(x: int) -> int { (x * 8_265_825) % (Q as int) }
    pub proof fn lemma_demont(x: int)
        ensures cong(x, demont(x) * 4_294_967_296),
    {
        let q = Q as int;
        lemma_cong_mod(x * 8_265_825);
        // demont(x) == x*RINV (mod q)  =>  demont(x)*R == x*RINV*R == x (mod q)
        lemma_cong_refl(4_294_967_296);
        lemma_cong_mul(demont(x), x * 8_265_825, 4_294_967_296, 4_294_967_296);
        assert(4_294_967_296int * 8_265_825 == 1 + 4_236_238_847 * 8_380_417) by (compute);
        assert((x * 8_265_825) * 4_294_967_296 - x == (x * 4_236_238_847) * q) by (nonlinear_arith)
            requires 4_294_967_296int * 8_265_825 == 1 + 4_236_238_847 * q;
        lemma_cong_from((x * 8_265_825) * 4_294_967_296, x, x * 4_236_238_847);
        lemma_cong_trans(demont(x) * 4_294_967_296, (x * 8_265_825) * 4_294_967_296, x);
        lemma_cong_sym(demont(x) * 4_294_967_296, x);
    }
    // sum over the first j columns of A[k][.][n] * NTT(z_.)[n]
    #[verifier::opaque]
    pub open spec fn dotz<const K: usize, const L: usize>(a: [[T; L]; K], zs: Seq<Seq<int>>, k: int, n: int, j: int) -> int
        decreases j
    {
        if j <= 0 { 0 } else { dotz(a, zs, k, n, j - 1) + (a[k][j - 1].0[n] as int) * spec_ntt(zs[j - 1])[n] }
    }
    pub proof fn lemma_dot_cong<const K: usize, const L: usize>(a: [[T; L]; K], u: [T; L], zs: Seq<Seq<int>>, k: int, n: int, j: int)
        requires 0 <= j <= L, forall|jj: int| 0 <= jj < L ==> cong(#[trigger] u[jj].0[n] as int, spec_ntt(zs[jj])[n]),
        ensures cong(dotp(a, u, k, n, j), dotz(a, zs, k, n, j)),
        decreases j
    {
        reveal_with_fuel(dotz, 2);
        if j > 0 {
            lemma_dot_cong(a, u, zs, k, n, j - 1);
            lemma_cong_refl(a[k][j - 1].0[n] as int);
            lemma_cong_mul(a[k][j - 1].0[n] as int, a[k][j - 1].0[n] as int, u[j - 1].0[n] as int, spec_ntt(zs[j - 1])[n]);
            lemma_cong_add(dotp(a, u, k, n, j - 1), dotz(a, zs, k, n, j - 1),
                           (a[k][j - 1].0[n] as int) * (u[j - 1].0[n] as int), (a[k][j - 1].0[n] as int) * spec_ntt(zs[j - 1])[n]);
        } else { lemma_cong_refl(0); }
    }
    // coefficient n of row k of  A o NTT(z)  -  NTT(c) o (t1*2^d)^  before the inverse transform
    #[verifier::opaque]
    pub open spec fn vfy_wbar<const K: usize, const L: usize>(a: [[T; L]; K], zs: Seq<Seq<int>>, c: Seq<int>, t1d2m: [T; K], k: int, n: int) -> int {
        dotz(a, zs, k, n, L as int) - spec_ntt(c)[n] * demont(t1d2m[k].0[n] as int)
    }
    pub proof fn lemma_vfy_term<const K: usize, const L: usize>(mr: int, azv: int, cv: int, tv: int, a: [[T; L]; K], zs: Seq<Seq<int>>, cs: Seq<int>, t1d2m: [T; K], k: int, n: int)
        requires 0 <= k < K, 0 <= n < 256, mont_rel(mr, cv * tv), cong(cv, spec_ntt(cs)[n]), tv == t1d2m[k].0[n] as int, cong(azv, dotz(a, zs, k, n, L as int)),
        ensures cong(azv - mr, vfy_wbar(a, zs, cs, t1d2m, k, n)),
    {
        reveal(vfy_wbar);
        let sc = spec_ntt(cs)[n];
        lemma_demont(tv);
        assert(cv * tv == tv * cv) by (nonlinear_arith);
        lemma_mont_mul(mr, tv, cv, demont(tv), sc);
        assert(demont(tv) * sc == sc * demont(tv)) by (nonlinear_arith);
        lemma_cong_add(azv, dotz(a, zs, k, n, L as int), mr, sc * demont(tv));
    }
    pub open spec fn vfy_wbar_seq<const K: usize, const L: usize>(a: [[T; L]; K], zs: Seq<Seq<int>>, c: Seq<int>, t1d2m: [T; K], k: int) -> Seq<int> {
        Seq::new(256, |n: int| vfy_wbar(a, zs, c, t1d2m, k, n))
    }
    pub open spec fn vfy_w<const K: usize, const L: usize>(a: [[T; L]; K], zs: Seq<Seq<int>>, c: Seq<int>, t1d2m: [T; K], k: int) -> Seq<int> {
        spec_invntt(vfy_wbar_seq(a, zs, c, t1d2m, k))
    }
    pub open spec fn vfy_w1fn<const K: usize, const L: usize>(a: [[T; L]; K], c: R, t1d2m: [T; K], sig: Seq<u8>, gamma1: int, gamma2: int, omega: int, lam4: int) -> spec_fn(int, int) -> int {
        |k: int, n: int| spec_use_hint(gamma2, sig_h(sig, gamma1, lam4, L as int, omega, k, n),
                                       vfy_w(a, sig_zs(sig, gamma1, lam4, L as int), poly_ints(c.0), t1d2m, k)[n])
    }
    pub open spec fn sig_zs(sig: Seq<u8>, gamma1: int, lam4: int, l: int) -> Seq<Seq<int>> {
        Seq::new(l as nat, |i: int| Seq::new(256, |j: int| sig_z(sig, gamma1, lam4, i, j)))
    }
    pub open spec fn sig_h(sig: Seq<u8>, gamma1: int, lam4: int, l: int, omega: int, i: int, j: int) -> int {
        if hint_has(sig_hint_bytes(sig, gamma1, lam4, l), omega, i, j) { 1 } else { 0 }
    }
    pub open spec fn w1_fields_ok(w1b: Seq<u8>, gamma2: int, kk: int, w1: spec_fn(int, int) -> int) -> bool {
        w1b.len() == kk * w1_step(gamma2)
            && forall|k: int, n: int| 0 <= k < kk && 0 <= n < 256 ==> #[trigger] field(w1_bytes(w1b, gamma2, k), w1_step(gamma2) / 32, n) == w1(k, n)
    }
    pub open spec fn verify_core<const K: usize, const L: usize>(a: [[T; L]; K], c: R, t1d2m: [T; K], mu: Seq<u8>, sig: Seq<u8>,
            gamma1: int, gamma2: int, omega: int, lam4: int) -> bool {
        let w1 = vfy_w1fn(a, c, t1d2m, sig, gamma1, gamma2, omega, lam4);
        exists|w1b: Seq<u8>| #[trigger] w1_fields_ok(w1b, gamma2, K as int, w1) && sig.subrange(0, lam4) == stream_take(shake256(mu + w1b), 0, lam4)
    }
    // C02: what Verify_internal returns, as a function of (pk struct, mu, sigma) up to the relational choice of A and c:
    // true only for canonical hint sections; for those, exactly (norm test && c~ == H(mu || w1Encode(UseHint(h, W)))).
    pub open spec fn verify_spec<const K: usize, const L: usize>(res: bool, pk: PublicKey<K, L>, mu: Seq<u8>, sig: Seq<u8>,
            beta: int, gamma1: int, gamma2: int, omega: int, tau: int, lam4: int) -> bool {
        let canon = hint_canonical(sig_hint_bytes(sig, gamma1, lam4, L as int), omega, K as int);
        &&& res ==> canon
        &&& canon ==> exists|a: [[T; L]; K], c: R| #[trigger] verify_wit(pk, sig, tau, lam4, a, c)
                && res == (sig_z_norm_ok(sig, gamma1, beta, lam4, L as int)
                           && verify_core(a, c, pk.t1_d2_hat_mont, mu, sig, gamma1, gamma2, omega, lam4))
    }
    pub open spec fn verify_wit<const K: usize, const L: usize>(pk: PublicKey<K, L>, sig: Seq<u8>, tau: int, lam4: int, a: [[T; L]; K], c: R) -> bool {
        expand_a_rel(pk.rho@, a) && sib_rel(tau, shake256(sig.subrange(0, lam4)), c)
    }
    // two byte strings with the same w1 fields are equal (the fields determine the bytes, chunk by chunk)
    pub proof fn lemma_w1_unique(b1: Seq<u8>, b2: Seq<u8>, gamma2: int, kk: int, w1: spec_fn(int, int) -> int)
        requires gamma2_ok(gamma2), 1 <= kk <= 8, w1_fields_ok(b1, gamma2, kk, w1), w1_fields_ok(b2, gamma2, kk, w1),
        ensures b1 == b2,
    {
        let ws = w1_step(gamma2);
        let c = ws / 32;
        assert(ws == 32 * c && c >= 1);
        assert forall|m: int| 0 <= m < b1.len() implies b1[m] == b2[m] by {
            let k = m / ws; let off = m % ws;
            lemma_fundamental_div_mod(m, ws);
            assert(m == ws * k + off && 0 <= off < ws);
            assert(0 <= k < kk) by (nonlinear_arith) requires m == ws * k + off, 0 <= off < ws, 0 <= m < kk * ws, ws >= 1;
            let s1 = w1_bytes(b1, gamma2, k); let s2 = w1_bytes(b2, gamma2, k);
            assert(k * ws + ws <= kk * ws) by (nonlinear_arith) requires k < kk, ws >= 1;
            assert((k + 1) * ws == k * ws + ws) by (nonlinear_arith);
            assert(ws * k == k * ws) by (nonlinear_arith);
            assert forall|j: int| 0 <= j < 256 implies #[trigger] field(s1, c, j) == field(s2, c, j) by {
                assert(field(w1_bytes(b1, gamma2, k), w1_step(gamma2) / 32, j) == w1(k, j));
                assert(field(w1_bytes(b2, gamma2, k), w1_step(gamma2) / 32, j) == w1(k, j));
            }
            lemma_fields_determine_bytes(s1, s2, c);
            assert(s1[off] == b1[k * ws + off]);
            assert(s2[off] == b2[k * ws + off]);
        }
        assert(b1 =~= b2);
    }
    // ---- public key struct <-> public key bytes (Algorithm 23 + the precomputation NTT(t1 * 2^d) in Montgomery form)
    pub open spec fn pk_t1_ints(pk: Seq<u8>, k: int) -> Seq<int> { Seq::new(256, |j: int| field(pk_t1_bytes(pk, k), 10, j)) }
    pub open spec fn pk_t1hat_ok<const K: usize>(t1d2m: [T; K], pk: Seq<u8>) -> bool {
        forall|k: int, n: int| 0 <= k < K && 0 <= n < 256 ==> cong(demont(#[trigger] t1d2m[k].0[n] as int), 8192 * spec_ntt(pk_t1_ints(pk, k))[n])
    }
    pub open spec fn pk_rel<const K: usize, const L: usize>(p: PublicKey<K, L>, pk: Seq<u8>) -> bool {
        p.rho@ == pk.subrange(0, 32) && p.tr@ == stream_take(shake256(pk), 0, 64) && pk_t1hat_ok(p.t1_d2_hat_mont, pk)
    }
    // x == y*R, y*R == (u*R)*8192  ==>  demont(x) == u*8192 style cancellations
    pub proof fn lemma_t1d2_step(e: int, thm: int, s: int)
        requires cong(e * 4_294_967_296, thm * 8192), mont_of(thm, s),
        ensures cong(e, 8192 * s),
    {
        lemma_cong_refl(8192);
        lemma_cong_mul(thm, s * 4_294_967_296, 8192, 8192);
        lemma_cong_trans(e * 4_294_967_296, thm * 8192, (s * 4_294_967_296) * 8192);
        assert((s * 4_294_967_296) * 8192 == (8192 * s) * 4_294_967_296) by (nonlinear_arith);
        lemma_cong_cancel_r32(e, 8192 * s);
    }
    pub open spec fn demont_is(r: int, s: int) -> bool { cong(demont(r), s) }
    pub proof fn lemma_mont_of_trans(r: int, v: int, s: int)
        requires cong(r, v * 4_294_967_296), cong(v, s),
        ensures mont_of(r, s), demont_is(r, s),
    {
        lemma_cong_refl(4_294_967_296);
        lemma_cong_mul(v, s, 4_294_967_296, 4_294_967_296);
        lemma_cong_trans(r, v * 4_294_967_296, s * 4_294_967_296);
        lemma_demont_of_mont(r, s);
    }
    pub proof fn lemma_demont_of_mont(r: int, e: int)
        requires cong(r, e * 4_294_967_296),
        ensures cong(demont(r), e),
    {
        lemma_demont(r);
        lemma_cong_sym(r, demont(r) * 4_294_967_296);
        lemma_cong_trans(demont(r) * 4_294_967_296, r, e * 4_294_967_296);
        lemma_cong_cancel_r32(demont(r), e);
    }
    // ---- FIPS 204 Algorithm 7 (Sign_internal): the emitted signature is an accepted attempt for some kappa
    pub proof fn lemma_mod_pm_cong(a: int, b: int)
        requires cong(a, b),
        ensures mod_pm(a, Q as int) == mod_pm(b, Q as int),
    { lemma_cong_same_mod(a, b); }
    pub proof fn lemma_decompose_cong(g: int, a: int, b: int)
        requires cong(a, b),
        ensures spec_decompose(g, a) == spec_decompose(g, b), spec_high_bits(g, a) == spec_high_bits(g, b), spec_low_bits(g, a) == spec_low_bits(g, b),
    { lemma_cong_same_mod(a, b); }
    pub proof fn lemma_make_hint_cong(g: int, z: int, r1: int, r2: int)
        requires cong(r1, r2),
        ensures spec_make_hint(g, z, r1) == spec_make_hint(g, z, r2),
    {
        lemma_decompose_cong(g, r1, r2);
        lemma_cong_refl(z);
        lemma_cong_add(r1, r2, z, z);
        lemma_decompose_cong(g, r1 + z, r2 + z);
    }
    #[verifier::opaque]
    pub open spec fn mask_ys(rhopp: Seq<u8>, kappa: int, gamma1: int, l: int) -> Seq<Seq<int>> {
        Seq::new(l as nat, |i: int| Seq::new(256, |n: int| spec_mask_coef(rhopp, kappa + i, gamma1, n)))
    }
    #[verifier::opaque]
    pub open spec fn sgn_wbar_seq<const K: usize, const L: usize>(a: [[T; L]; K], ys: Seq<Seq<int>>, k: int) -> Seq<int> {
        Seq::new(256, |n: int| dotz(a, ys, k, n, L as int))
    }
    pub open spec fn sgn_w<const K: usize, const L: usize>(a: [[T; L]; K], ys: Seq<Seq<int>>, k: int) -> Seq<int> { spec_invntt(sgn_wbar_seq(a, ys, k)) }
    // c * s for a secret polynomial stored as NTT(s) in Montgomery form
    #[verifier::opaque]
    pub open spec fn cmul_seq(c: Seq<int>, shm: [i32; 256]) -> Seq<int> { Seq::new(256, |n: int| spec_ntt(c)[n] * demont(shm[n] as int)) }
    pub open spec fn cmul(c: Seq<int>, shm: [i32; 256]) -> Seq<int> { spec_invntt(cmul_seq(c, shm)) }
    pub proof fn lemma_seq_cong_intro(a: [i32; 256], b: Seq<int>)
        requires b.len() == 256, forall|n: int| 0 <= n < 256 ==> cong(#[trigger] a[n] as int, b[n]),
        ensures seq_cong(poly_ints(a), b),
    {
        assert forall|i: int| 0 <= i < 256 implies cong(#[trigger] poly_ints(a)[i], b[i]) by { assert(cong(a[i] as int, b[i])); }
    }
    pub proof fn lemma_cmul_len(cs: Seq<int>, shm: [i32; 256])
        ensures cmul_seq(cs, shm).len() == 256,
    { reveal(cmul_seq); }
    pub proof fn lemma_cmul_term(mr: int, cv: int, tv: int, cs: Seq<int>, shm: [i32; 256], n: int)
        requires 0 <= n < 256, mont_rel(mr, cv * tv), cong(cv, spec_ntt(cs)[n]), tv == shm[n] as int,
        ensures cong(mr, cmul_seq(cs, shm)[n]),
    {
        reveal(cmul_seq);
        let sc = spec_ntt(cs)[n];
        lemma_demont(tv);
        assert(cv * tv == tv * cv) by (nonlinear_arith);
        lemma_mont_mul(mr, tv, cv, demont(tv), sc);
        assert(demont(tv) * sc == sc * demont(tv)) by (nonlinear_arith);
    }
    pub proof fn lemma_wbar_at<const K: usize, const L: usize>(a: [[T; L]; K], ys: Seq<Seq<int>>, k: int, n: int)
        requires 0 <= n < 256,
        ensures sgn_wbar_seq(a, ys, k).len() == 256, sgn_wbar_seq(a, ys, k)[n] == dotz(a, ys, k, n, L as int),
    { reveal(sgn_wbar_seq); }
    pub open spec fn sgn_w1fn<const K: usize, const L: usize>(a: [[T; L]; K], ys: Seq<Seq<int>>, gamma2: int) -> spec_fn(int, int) -> int {
        |k: int, n: int| spec_high_bits(gamma2, sgn_w(a, ys, k)[n])
    }
    pub open spec fn sign_commit<const K: usize, const L: usize>(a: [[T; L]; K], ys: Seq<Seq<int>>, mu: Seq<u8>, sig: Seq<u8>, gamma2: int, lam4: int) -> bool {
        exists|w1b: Seq<u8>| #[trigger] w1_fields_ok(w1b, gamma2, K as int, sgn_w1fn(a, ys, gamma2)) && sig.subrange(0, lam4) == stream_take(shake256(mu + w1b), 0, lam4)
    }
    pub open spec fn sign_attempt<const K: usize, const L: usize>(a: [[T; L]; K], sk: PrivateKey<K, L>, ys: Seq<Seq<int>>, c: R, sig: Seq<u8>,
            beta: int, gamma1: int, gamma2: int, omega: int, lam4: int) -> bool {
        let cs = poly_ints(c.0);
        &&& forall|l: int, n: int| 0 <= l < L && 0 <= n < 256 ==>
                #[trigger] sig_z(sig, gamma1, lam4, l, n) == mod_pm(ys[l][n] + cmul(cs, sk.s_1_hat_mont[l].0)[n], Q as int)
        &&& sig_z_norm_ok(sig, gamma1, beta, lam4, L as int)
        &&& forall|k: int, n: int| 0 <= k < K && 0 <= n < 256 ==>
                spec_abs(spec_low_bits(gamma2, #[trigger] sgn_w(a, ys, k)[n] - cmul(cs, sk.s_2_hat_mont[k].0)[n])) < gamma2 - beta
        &&& forall|k: int, n: int| 0 <= k < K && 0 <= n < 256 ==> spec_abs(mod_pm(#[trigger] cmul(cs, sk.t_0_hat_mont[k].0)[n], Q as int)) < gamma2
        &&& forall|k: int, n: int| 0 <= k < K && 0 <= n < 256 ==> #[trigger] sig_h(sig, gamma1, lam4, L as int, omega, k, n) == (if spec_make_hint(gamma2,
                Q - cmul(cs, sk.t_0_hat_mont[k].0)[n],
                sgn_w(a, ys, k)[n] - cmul(cs, sk.s_2_hat_mont[k].0)[n] + cmul(cs, sk.t_0_hat_mont[k].0)[n]) { 1int } else { 0int })
        // line 28, second half: the hint has at most omega ones
        &&& fn_count(sgn_hfn(a, sk, ys, cs, gamma2), 256 * K) <= omega
    }
    // ---- Tier 2: FIPS 204 Algorithm 6 (KeyGen_internal) over the key structs
    pub open spec fn vec_ints<const N: usize>(v: [R; N]) -> Seq<Seq<int>> { Seq::new(N as nat, |i: int| poly_ints(v[i].0)) }
    // t = NTT^-1(A o NTT(s1)) + s2, reduced into [0, q)
    pub open spec fn kg_t<const K: usize, const L: usize>(a: [[T; L]; K], s1: Seq<Seq<int>>, s2: Seq<Seq<int>>, k: int, n: int) -> int {
        (sgn_w(a, s1, k)[n] + s2[k][n]) % (Q as int)
    }
    pub open spec fn kg_t1<const K: usize, const L: usize>(a: [[T; L]; K], s1: Seq<Seq<int>>, s2: Seq<Seq<int>>) -> Seq<Seq<int>> {
        Seq::new(K as nat, |k: int| Seq::new(256, |n: int| spec_power2round(kg_t(a, s1, s2, k, n)).0))
    }
    pub open spec fn kg_t0<const K: usize, const L: usize>(a: [[T; L]; K], s1: Seq<Seq<int>>, s2: Seq<Seq<int>>) -> Seq<Seq<int>> {
        Seq::new(K as nat, |k: int| Seq::new(256, |n: int| spec_power2round(kg_t(a, s1, s2, k, n)).1))
    }
    pub open spec fn kg_wit<const K: usize, const L: usize>(xi: Seq<u8>, eta: int, pk: PublicKey<K, L>, sk: PrivateKey<K, L>,
            a: [[T; L]; K], s1: [R; L], s2: [R; K], pkb: Seq<u8>) -> bool {
        let st = shake256(keygen_seed_input(xi, K as int, L as int));
        &&& pk.rho@ == stream_take(st, 0, 32) && sk.rho@ == pk.rho@ && sk.cap_k@ == stream_take(st, 96, 32)
        &&& expand_a_rel(pk.rho@, a)
        &&& expand_s_rel(stream_take(st, 32, 64), eta, s1, s2)
        &&& pk_coefs_ok(pk, kg_t1(a, vec_ints(s1), vec_ints(s2)))
        &&& sk_coefs_ok(sk, eta, vec_ints(s1), vec_ints(s2), kg_t0(a, vec_ints(s1), vec_ints(s2)))
        // tr = H(pkEncode(rho, t1), 64)
        &&& pkb.len() == 32 + 320 * K && pkb.subrange(0, 32) == pk.rho@
        &&& forall|i: int, j: int| 0 <= i < K && 0 <= j < 256 ==> #[trigger] field(pk_t1_bytes(pkb, i), 10, j) == kg_t1(a, vec_ints(s1), vec_ints(s2))[i][j]
        &&& pk.tr@ == stream_take(shake256(pkb), 0, 64) && sk.tr@ == pk.tr@
    }
    pub open spec fn keygen_spec<const K: usize, const L: usize>(xi: Seq<u8>, eta: int, pk: PublicKey<K, L>, sk: PrivateKey<K, L>) -> bool {
        exists|a: [[T; L]; K], s1: [R; L], s2: [R; K], pkb: Seq<u8>| #[trigger] kg_wit(xi, eta, pk, sk, a, s1, s2, pkb)
    }
    // ---- Tier 2: the private key struct holds NTT(s1), NTT(s2), NTT(t0) in Montgomery form, for in-range s1, s2, t0 (struct invariant of
    // every key that key generation or deserialisation returns); the coefficient vectors are recovered exactly by into_bytes
    pub open spec fn vec_in(s: Seq<Seq<int>>, cnt: int, lo: int, hi: int) -> bool {
        &&& s.len() == cnt
        &&& forall|i: int| 0 <= i < cnt ==> (#[trigger] s[i]).len() == 256
        &&& forall|i: int, n: int| 0 <= i < cnt && 0 <= n < 256 ==> lo <= #[trigger] s[i][n] <= hi
    }
    pub open spec fn vec_mont_of<const N: usize>(v: [T; N], s: Seq<Seq<int>>) -> bool {
        forall|i: int, n: int| 0 <= i < N && 0 <= n < 256 ==> mont_of(#[trigger] v[i].0[n] as int, spec_ntt(s[i])[n])
    }
    pub open spec fn sk_coefs_ok<const K: usize, const L: usize>(sk: PrivateKey<K, L>, eta: int, s1: Seq<Seq<int>>, s2: Seq<Seq<int>>, t0: Seq<Seq<int>>) -> bool {
        &&& vec_in(s1, L as int, -eta, eta) && vec_in(s2, K as int, -eta, eta) && vec_in(t0, K as int, -4095, 4096)
        &&& vec_mont_of(sk.s_1_hat_mont, s1) && vec_mont_of(sk.s_2_hat_mont, s2) && vec_mont_of(sk.t_0_hat_mont, t0)
    }
    pub open spec fn sk_valid<const K: usize, const L: usize>(sk: PrivateKey<K, L>, eta: int) -> bool {
        exists|s1: Seq<Seq<int>>, s2: Seq<Seq<int>>, t0: Seq<Seq<int>>| #[trigger] sk_coefs_ok(sk, eta, s1, s2, t0)
    }
    // the coefficient vectors encoded in a private-key byte string (Algorithm 25 skDecode)
    pub open spec fn sk_s1_vec(sk: Seq<u8>, eta: int, l: int) -> Seq<Seq<int>> {
        Seq::new(l as nat, |i: int| Seq::new(256, |j: int| spec_unpack_coef(sk_s1_bytes(sk, eta, i), eta, eta, j)))
    }
    pub open spec fn sk_s2_vec(sk: Seq<u8>, eta: int, k: int, l: int) -> Seq<Seq<int>> {
        Seq::new(k as nat, |i: int| Seq::new(256, |j: int| spec_unpack_coef(sk_s2_bytes(sk, eta, l, i), eta, eta, j)))
    }
    pub open spec fn sk_t0_vec(sk: Seq<u8>, eta: int, k: int, l: int) -> Seq<Seq<int>> {
        Seq::new(k as nat, |i: int| Seq::new(256, |j: int| spec_unpack_coef(sk_t0_bytes(sk, eta, k, l, i), 4095, 4096, j)))
    }
    // ---- Tier 2: the public key struct holds NTT(t1 * 2^d) in Montgomery form for a t1 with 10-bit coefficients
    pub open spec fn pk_coefs_ok<const K: usize, const L: usize>(pk: PublicKey<K, L>, t1: Seq<Seq<int>>) -> bool {
        &&& vec_in(t1, K as int, 0, 1023)
        &&& forall|k: int, n: int| 0 <= k < K && 0 <= n < 256 ==> cong(demont(#[trigger] pk.t1_d2_hat_mont[k].0[n] as int), 8192 * spec_ntt(t1[k])[n])
    }
    pub open spec fn pk_valid<const K: usize, const L: usize>(pk: PublicKey<K, L>) -> bool { exists|t1: Seq<Seq<int>>| #[trigger] pk_coefs_ok(pk, t1) }
    pub open spec fn pk_t1_vec(pk: Seq<u8>, k: int) -> Seq<Seq<int>> { Seq::new(k as nat, |i: int| pk_t1_ints(pk, i)) }
    pub proof fn lemma_pk_rel_coefs<const K: usize, const L: usize>(p: PublicKey<K, L>, pkb: Seq<u8>)
        requires pk_rel(p, pkb),
        ensures pk_coefs_ok(p, pk_t1_vec(pkb, K as int)),
    {
        let v = pk_t1_vec(pkb, K as int);
        lemma2_to64();
        assert forall|i: int, n: int| 0 <= i < K && 0 <= n < 256 implies 0 <= #[trigger] v[i][n] <= 1023 by {
            lemma_bits_range(pk_t1_bytes(pkb, i), 10 * n, 10);
            assert(p2(10) == 1024);
        }
    }
    pub proof fn lemma_pk_coefs_unique<const K: usize, const L: usize>(p: PublicKey<K, L>, a: Seq<Seq<int>>, b: Seq<Seq<int>>)
        requires pk_coefs_ok(p, a), pk_coefs_ok(p, b),
        ensures forall|i: int, n: int| 0 <= i < K && 0 <= n < 256 ==> #[trigger] a[i][n] == b[i][n],
    {
        assert forall|i: int, n: int| 0 <= i < K && 0 <= n < 256 implies #[trigger] a[i][n] == b[i][n] by {
            assert(a[i].len() == 256 && b[i].len() == 256);
            let y = Seq::new(256, |m: int| demont(p.t1_d2_hat_mont[i].0[m] as int));
            assert forall|m: int| 0 <= m < 256 implies cong(#[trigger] y[m], 8192 * spec_ntt(a[i])[m]) by { }
            assert forall|m: int| 0 <= m < 256 implies cong(#[trigger] y[m], 8192 * spec_ntt(b[i])[m]) by { }
            lemma_invntt_scaled(y, 8192, a[i]);
            lemma_invntt_scaled(y, 8192, b[i]);
            assert(spec_invntt(y)[n] == (8192 * a[i][n]) % (Q as int));
            assert(spec_invntt(y)[n] == (8192 * b[i][n]) % (Q as int));
            assert(0 <= a[i][n] <= 1023 && 0 <= b[i][n] <= 1023);
        }
    }
    // the 32-byte seed and the 10-bit fields determine a public-key byte string
    pub proof fn lemma_pk_bytes_unique(b1: Seq<u8>, b2: Seq<u8>, k: int)
        requires 1 <= k <= 8, b1.len() == 32 + 320 * k, b2.len() == 32 + 320 * k, b1.subrange(0, 32) == b2.subrange(0, 32),
            forall|i: int, j: int| 0 <= i < k && 0 <= j < 256 ==> #[trigger] field(pk_t1_bytes(b1, i), 10, j) == field(pk_t1_bytes(b2, i), 10, j),
        ensures b1 == b2,
    {
        assert forall|m: int| 0 <= m < b1.len() implies b1[m] == b2[m] by {
            if m < 32 {
                assert(b1.subrange(0, 32)[m] == b1[m]); assert(b2.subrange(0, 32)[m] == b2[m]);
            } else {
                let i = (m - 32) / 320;
                assert(0 <= i < k && 32 + 320 * i <= m < 32 + 320 * (i + 1));
                let c1 = pk_t1_bytes(b1, i); let c2 = pk_t1_bytes(b2, i);
                assert forall|j: int| 0 <= j < 256 implies #[trigger] field(c1, 10, j) == field(c2, 10, j) by { }
                lemma_fields_determine_bytes(c1, c2, 10);
                assert(c1[m - 32 - 320 * i] == b1[m]); assert(c2[m - 32 - 320 * i] == b2[m]);
            }
        }
        assert(b1 =~= b2);
    }
    pub open spec fn sk_vecs_are(b: Seq<u8>, eta: int, k: int, l: int, s1: Seq<Seq<int>>, s2: Seq<Seq<int>>, t0: Seq<Seq<int>>) -> bool {
        &&& forall|i: int, j: int| 0 <= i < l && 0 <= j < 256 ==> #[trigger] field(sk_s1_bytes(b, eta, i), spec_bitlen(2 * eta), j) == eta - s1[i][j]
        &&& forall|i: int, j: int| 0 <= i < k && 0 <= j < 256 ==> #[trigger] field(sk_s2_bytes(b, eta, l, i), spec_bitlen(2 * eta), j) == eta - s2[i][j]
        &&& forall|i: int, j: int| 0 <= i < k && 0 <= j < 256 ==> #[trigger] field(sk_t0_bytes(b, eta, k, l, i), 13, j) == 4096 - t0[i][j]
    }
    // ---- fields determine bytes, for a run of cnt equal-size chunks starting at base
    pub open spec fn chunk(b: Seq<u8>, base: int, st: int, i: int) -> Seq<u8> { b.subrange(base + i * st, base + (i + 1) * st) }
    pub proof fn lemma_region_unique(b1: Seq<u8>, b2: Seq<u8>, base: int, st: int, cnt: int, c: int)
        requires 1 <= c, st == 32 * c, cnt >= 0, base >= 0, b1.len() == b2.len(), base + cnt * st <= b1.len(),
            forall|i: int, j: int| 0 <= i < cnt && 0 <= j < 256 ==> #[trigger] field(chunk(b1, base, st, i), c, j) == field(chunk(b2, base, st, i), c, j),
        ensures forall|m: int| base <= m < base + cnt * st ==> b1[m] == b2[m],
        decreases cnt
    {
        if cnt > 0 {
            assert(cnt * st == (cnt - 1) * st + st) by (nonlinear_arith);
            assert((cnt - 1) * st >= 0) by (nonlinear_arith) requires cnt >= 1, st >= 1;
            lemma_region_unique(b1, b2, base, st, cnt - 1, c);
            let c1 = chunk(b1, base, st, cnt - 1); let c2 = chunk(b2, base, st, cnt - 1);
            assert((cnt - 1 + 1) * st == cnt * st);
            assert forall|j: int| 0 <= j < 256 implies #[trigger] field(c1, c, j) == field(c2, c, j) by { }
            lemma_fields_determine_bytes(c1, c2, c);
            assert forall|m: int| base <= m < base + cnt * st implies b1[m] == b2[m] by {
                if m >= base + (cnt - 1) * st {
                    let o = m - (base + (cnt - 1) * st);
                    assert(c1[o] == b1[m]); assert(c2[o] == b2[m]);
                }
            }
        } else {
            assert(cnt * st == 0) by (nonlinear_arith) requires cnt == 0;
        }
    }
    // the 128-byte header and the coefficient fields determine a private-key byte string
    pub proof fn lemma_sk_bytes_unique(b1: Seq<u8>, b2: Seq<u8>, eta: int, k: int, l: int)
        requires eta_ok(eta), 1 <= k <= 8, 1 <= l <= 8, b1.len() == 128 + (k + l) * eta_step(eta) + 416 * k, b2.len() == b1.len(),
            b1.subrange(0, 32) == b2.subrange(0, 32), b1.subrange(32, 64) == b2.subrange(32, 64), b1.subrange(64, 128) == b2.subrange(64, 128),
            forall|i: int, j: int| 0 <= i < l && 0 <= j < 256 ==> #[trigger] field(sk_s1_bytes(b1, eta, i), spec_bitlen(2 * eta), j) == field(sk_s1_bytes(b2, eta, i), spec_bitlen(2 * eta), j),
            forall|i: int, j: int| 0 <= i < k && 0 <= j < 256 ==> #[trigger] field(sk_s2_bytes(b1, eta, l, i), spec_bitlen(2 * eta), j) == field(sk_s2_bytes(b2, eta, l, i), spec_bitlen(2 * eta), j),
            forall|i: int, j: int| 0 <= i < k && 0 <= j < 256 ==> #[trigger] field(sk_t0_bytes(b1, eta, k, l, i), 13, j) == field(sk_t0_bytes(b2, eta, k, l, i), 13, j),
        ensures b1 == b2,
    {
        lemma_bitlen_consts();
        let st = eta_step(eta); let c = spec_bitlen(2 * eta);
        assert(c == (if eta == 2 { 3int } else { 4int }) && st == 32 * c);
        let base2 = 128 + l * st; let base3 = 128 + (l + k) * st;
        assert((l + k) * st == l * st + k * st) by (nonlinear_arith);
        assert((k + l) * st == l * st + k * st) by (nonlinear_arith);
        assert(l * st >= 0 && k * st >= 0) by (nonlinear_arith) requires l >= 1, k >= 1, st >= 1;
        assert forall|i: int, j: int| 0 <= i < l && 0 <= j < 256 implies #[trigger] field(chunk(b1, 128, st, i), c, j) == field(chunk(b2, 128, st, i), c, j) by {
            assert(chunk(b1, 128, st, i) == sk_s1_bytes(b1, eta, i)); assert(chunk(b2, 128, st, i) == sk_s1_bytes(b2, eta, i));
        }
        lemma_region_unique(b1, b2, 128, st, l, c);
        assert forall|i: int, j: int| 0 <= i < k && 0 <= j < 256 implies #[trigger] field(chunk(b1, base2, st, i), c, j) == field(chunk(b2, base2, st, i), c, j) by {
            assert(chunk(b1, base2, st, i) == sk_s2_bytes(b1, eta, l, i)); assert(chunk(b2, base2, st, i) == sk_s2_bytes(b2, eta, l, i));
        }
        lemma_region_unique(b1, b2, base2, st, k, c);
        assert forall|i: int, j: int| 0 <= i < k && 0 <= j < 256 implies #[trigger] field(chunk(b1, base3, 416, i), 13, j) == field(chunk(b2, base3, 416, i), 13, j) by {
            assert(chunk(b1, base3, 416, i) == sk_t0_bytes(b1, eta, k, l, i)); assert(chunk(b2, base3, 416, i) == sk_t0_bytes(b2, eta, k, l, i));
        }
        lemma_region_unique(b1, b2, base3, 416, k, 13);
        assert forall|m: int| 0 <= m < b1.len() implies b1[m] == b2[m] by {
            if m < 32 { assert(b1.subrange(0, 32)[m] == b1[m]); assert(b2.subrange(0, 32)[m] == b2[m]); }
            else if m < 64 { assert(b1.subrange(32, 64)[m - 32] == b1[m]); assert(b2.subrange(32, 64)[m - 32] == b2[m]); }
            else if m < 128 { assert(b1.subrange(64, 128)[m - 64] == b1[m]); assert(b2.subrange(64, 128)[m - 64] == b2[m]); }
            else if m < base2 { } else if m < base3 { } else { }
        }
        assert(b1 =~= b2);
    }
    // a private key struct stands for the byte string skb
    pub open spec fn sk_rel<const K: usize, const L: usize>(sk: PrivateKey<K, L>, skb: Seq<u8>, eta: int) -> bool {
        &&& sk.rho@ == skb.subrange(0, 32) && sk.cap_k@ == skb.subrange(32, 64) && sk.tr@ == skb.subrange(64, 128)
        &&& sk_coefs_ok(sk, eta, sk_s1_vec(skb, eta, L as int), sk_s2_vec(skb, eta, K as int, L as int), sk_t0_vec(skb, eta, K as int, L as int))
    }
    pub proof fn lemma_sk_rel_bytes<const K: usize, const L: usize>(sk: PrivateKey<K, L>, skb: Seq<u8>, out: Seq<u8>, eta: int)
        requires eta_ok(eta), 1 <= K <= 8, 1 <= L <= 8, skb.len() == 128 + (K + L) * eta_step(eta) + 416 * K, out.len() == skb.len(), sk_rel(sk, skb, eta),
            out.subrange(0, 32) == sk.rho@ && out.subrange(32, 64) == sk.cap_k@ && out.subrange(64, 128) == sk.tr@,
            sk_vecs_are(out, eta, K as int, L as int, sk_s1_vec(skb, eta, L as int), sk_s2_vec(skb, eta, K as int, L as int), sk_t0_vec(skb, eta, K as int, L as int)),
        ensures out == skb,
    {
        lemma_bitlen_consts();
        let c = spec_bitlen(2 * eta);
        assert(spec_bitlen(eta + eta) == c);
        assert(spec_bitlen(4095int + 4096int) == 13);
        let v1 = sk_s1_vec(skb, eta, L as int); let v2 = sk_s2_vec(skb, eta, K as int, L as int); let v0 = sk_t0_vec(skb, eta, K as int, L as int);
        assert forall|i: int, j: int| 0 <= i < L && 0 <= j < 256 implies #[trigger] field(sk_s1_bytes(out, eta, i), c, j) == field(sk_s1_bytes(skb, eta, i), c, j) by {
            assert(v1[i][j] == eta - field(sk_s1_bytes(skb, eta, i), c, j));
        }
        assert forall|i: int, j: int| 0 <= i < K && 0 <= j < 256 implies #[trigger] field(sk_s2_bytes(out, eta, L as int, i), c, j) == field(sk_s2_bytes(skb, eta, L as int, i), c, j) by {
            assert(v2[i][j] == eta - field(sk_s2_bytes(skb, eta, L as int, i), c, j));
        }
        assert forall|i: int, j: int| 0 <= i < K && 0 <= j < 256 implies #[trigger] field(sk_t0_bytes(out, eta, K as int, L as int, i), 13, j) == field(sk_t0_bytes(skb, eta, K as int, L as int, i), 13, j) by {
            assert(v0[i][j] == 4096 - field(sk_t0_bytes(skb, eta, K as int, L as int, i), 13, j));
        }
        lemma_sk_bytes_unique(out, skb, eta, K as int, L as int);
    }
    // two small vectors with the same stored NTT image are equal (the NTT is injective on residues, and the ranges are narrower than q)
    pub proof fn lemma_vec_mont_unique<const N: usize>(v: [T; N], a: Seq<Seq<int>>, b: Seq<Seq<int>>, lo: int, hi: int)
        requires vec_in(a, N as int, lo, hi), vec_in(b, N as int, lo, hi), -4_190_208 <= lo, hi <= 4_190_208, vec_mont_of(v, a), vec_mont_of(v, b),
        ensures forall|i: int, n: int| 0 <= i < N && 0 <= n < 256 ==> #[trigger] a[i][n] == b[i][n],
    {
        assert forall|i: int, n: int| 0 <= i < N && 0 <= n < 256 implies #[trigger] a[i][n] == b[i][n] by {
            assert(a[i].len() == 256 && b[i].len() == 256);
            let na = spec_ntt(a[i]); let nb = spec_ntt(b[i]);
            lemma_spec_ntt_len(a[i]); lemma_spec_ntt_len(b[i]);
            assert forall|m: int| 0 <= m < 256 implies cong(#[trigger] na[m], nb[m]) by {
                let x = v[i].0[m] as int;
                assert(mont_of(x, na[m]) && mont_of(x, nb[m]));
                lemma_cong_sym(x, na[m] * 4_294_967_296);
                lemma_cong_trans(na[m] * 4_294_967_296, x, nb[m] * 4_294_967_296);
                lemma_cong_cancel_r32(na[m], nb[m]);
            }
            lemma_invntt_cong(na, nb);
            lemma_invntt_ntt(a[i]); lemma_invntt_ntt(b[i]);
            assert(spec_invntt(na)[n] == a[i][n] % (Q as int));
            assert(spec_invntt(nb)[n] == b[i][n] % (Q as int));
            assert(lo <= a[i][n] <= hi && lo <= b[i][n] <= hi);
            let x = a[i][n]; let y = b[i][n];
            if x < 0 { assert((x + Q) % (Q as int) == x + Q); assert(x % (Q as int) == x + Q); }
            if y < 0 { assert((y + Q) % (Q as int) == y + Q); assert(y % (Q as int) == y + Q); }
        }
    }
    pub proof fn lemma_sk_coefs_unique<const K: usize, const L: usize>(sk: PrivateKey<K, L>, eta: int, a1: Seq<Seq<int>>, a2: Seq<Seq<int>>, a0: Seq<Seq<int>>,
            b1: Seq<Seq<int>>, b2: Seq<Seq<int>>, b0: Seq<Seq<int>>)
        requires eta_ok(eta), sk_coefs_ok(sk, eta, a1, a2, a0), sk_coefs_ok(sk, eta, b1, b2, b0),
        ensures forall|i: int, n: int| 0 <= i < L && 0 <= n < 256 ==> #[trigger] a1[i][n] == b1[i][n],
            forall|i: int, n: int| 0 <= i < K && 0 <= n < 256 ==> #[trigger] a2[i][n] == b2[i][n],
            forall|i: int, n: int| 0 <= i < K && 0 <= n < 256 ==> #[trigger] a0[i][n] == b0[i][n],
    {
        lemma_vec_mont_unique(sk.s_1_hat_mont, a1, b1, -eta, eta);
        lemma_vec_mont_unique(sk.s_2_hat_mont, a2, b2, -eta, eta);
        lemma_vec_mont_unique(sk.t_0_hat_mont, a0, b0, -4095, 4096);
    }
    // NTT^-1 of (c times) NTT(w), given only up to congruence, is c*w reduced into [0, q)
    pub proof fn lemma_invntt_scaled(y: Seq<int>, c: int, w: Seq<int>)
        requires w.len() == 256, y.len() == 256, forall|i: int| 0 <= i < 256 ==> cong(#[trigger] y[i], c * spec_ntt(w)[i]),
        ensures forall|i: int| 0 <= i < 256 ==> #[trigger] spec_invntt(y)[i] == (c * w[i]) % (Q as int),
    {
        reveal(spec_ntt); reveal(spec_invntt);
        lemma_ntt_prefix(w, 8);
        assert(spec_ntt(w) == ntt_prefix(w, 8));
        lemma_rt_layers(y, c, w, 0);
        let v = intt_layers(y, 0);
        assert(pw2(8) == 256) by (compute_only);
        assert forall|i: int| 0 <= i < 256 implies #[trigger] spec_invntt(y)[i] == (c * w[i]) % (Q as int) by {
            let cw = c * w[i];
            assert(cong(v[i], pw2(8) * c * w[i]));
            assert(pw2(8) * c * w[i] == 256 * cw) by (nonlinear_arith) requires pw2(8) == 256, cw == c * w[i];
            lemma_cong_refl(8_347_681);
            lemma_cong_mul(8_347_681, 8_347_681, v[i], 256 * cw);
            assert(8_347_681 * (256 * cw) - cw == (255 * cw) * (Q as int)) by (nonlinear_arith);
            lemma_cong_from(8_347_681 * (256 * cw), cw, 255 * cw);
            lemma_cong_trans(8_347_681 * v[i], 8_347_681 * (256 * cw), cw);
            lemma_cong_same_mod(8_347_681 * v[i], cw);
        }
    }
    pub proof fn lemma_spec_ntt_len(w: Seq<int>)
        requires w.len() == 256,
        ensures spec_ntt(w).len() == 256,
    { reveal(spec_ntt); lemma_ntt_prefix(w, 8); }
    // a Montgomery-reduced stored coefficient is congruent to the NTT coefficient it stores
    pub proof fn lemma_unmont(e: int, x: int, s: int)
        requires mont_rel(e, x), mont_of(x, s),
        ensures cong(e, s),
    {
        lemma_cong_trans(e * 4_294_967_296, x, s * 4_294_967_296);
        lemma_cong_cancel_r32(e, s);
    }
    // centred representative of a small value recovered mod q
    pub proof fn lemma_center_small(v: int, s: int)
        requires v == s % (Q as int), -4_190_208 <= s <= 4_190_208,
        ensures (if v > (Q as int) / 2 { v - Q } else { v }) == s,
    {
        if s < 0 { assert((s + Q) % (Q as int) == s + Q); assert(s % (Q as int) == s + Q); }
    }
    // res is the infinity norm (of the centred representatives) of the vector w
    #[verifier::opaque]
    pub open spec fn inf_norm_is<const ROW: usize>(w: [R; ROW], res: i32) -> bool {
        &&& forall|x: int, n: int| 0 <= x < ROW && 0 <= n < 256 ==> spec_abs(mod_pm(#[trigger] w[x].0[n] as int, Q as int)) <= res
        &&& exists|x: int, n: int| 0 <= x < ROW && 0 <= n < 256 && spec_abs(mod_pm(#[trigger] w[x].0[n] as int, Q as int)) == res
    }
    // ---- a rejected attempt of Algorithm 7 (lines 23 and 28): some bound fails for the attempt's y and challenge c
    pub open spec fn rej_z<const K: usize, const L: usize>(sk: PrivateKey<K, L>, ys: Seq<Seq<int>>, cs: Seq<int>, l: int, n: int, bound: int) -> bool {
        spec_abs(mod_pm(ys[l][n] + cmul(cs, sk.s_1_hat_mont[l].0)[n], Q as int)) >= bound
    }
    pub open spec fn rej_r0<const K: usize, const L: usize>(a: [[T; L]; K], sk: PrivateKey<K, L>, ys: Seq<Seq<int>>, cs: Seq<int>, k: int, n: int, gamma2: int, bound: int) -> bool {
        spec_abs(spec_low_bits(gamma2, sgn_w(a, ys, k)[n] - cmul(cs, sk.s_2_hat_mont[k].0)[n])) >= bound
    }
    pub open spec fn rej_ct0<const K: usize, const L: usize>(sk: PrivateKey<K, L>, cs: Seq<int>, k: int, n: int, gamma2: int) -> bool {
        spec_abs(mod_pm(cmul(cs, sk.t_0_hat_mont[k].0)[n], Q as int)) >= gamma2
    }
    pub open spec fn sgn_hfn<const K: usize, const L: usize>(a: [[T; L]; K], sk: PrivateKey<K, L>, ys: Seq<Seq<int>>, cs: Seq<int>, gamma2: int) -> spec_fn(int, int) -> int {
        |k: int, n: int| if spec_make_hint(gamma2, Q - cmul(cs, sk.t_0_hat_mont[k].0)[n],
                sgn_w(a, ys, k)[n] - cmul(cs, sk.s_2_hat_mont[k].0)[n] + cmul(cs, sk.t_0_hat_mont[k].0)[n]) { 1int } else { 0int }
    }
    // number of non-zero values of f among the first n (row-major, 256 per row) positions
    pub open spec fn fn_count(f: spec_fn(int, int) -> int, n: int) -> int
        decreases n
    {
        if n <= 0 { 0 } else { fn_count(f, n - 1) + (if f((n - 1) / 256, (n - 1) % 256) != 0 { 1int } else { 0int }) }
    }
    pub proof fn lemma_fn_count<const K: usize>(h: [R; K], f: spec_fn(int, int) -> int, n: int)
        requires 0 <= n <= 256 * K, forall|k: int, j: int| 0 <= k < K && 0 <= j < 256 ==> #[trigger] h[k].0[j] as int == f(k, j),
        ensures hint_count(h@, n) == fn_count(f, n),
        decreases n
    {
        if n > 0 {
            lemma_fn_count(h, f, n - 1);
            let k = (n - 1) / 256; let j = (n - 1) % 256;
            assert(0 <= k < K && 0 <= j < 256);
            assert(h@[k] == h[k]);
            assert(h[k].0[j] as int == f(k, j));
        }
    }
    #[verifier::opaque]
    pub open spec fn attempt_rejected<const K: usize, const L: usize>(a: [[T; L]; K], sk: PrivateKey<K, L>, ys: Seq<Seq<int>>, c: R,
            beta: int, gamma1: int, gamma2: int, omega: int) -> bool {
        let cs = poly_ints(c.0);
        ||| exists|l: int, n: int| 0 <= l < L && 0 <= n < 256 && #[trigger] rej_z(sk, ys, cs, l, n, gamma1 - beta)
        ||| exists|k: int, n: int| 0 <= k < K && 0 <= n < 256 && #[trigger] rej_r0(a, sk, ys, cs, k, n, gamma2, gamma2 - beta)
        ||| exists|k: int, n: int| 0 <= k < K && 0 <= n < 256 && #[trigger] rej_ct0(sk, cs, k, n, gamma2)
        ||| fn_count(sgn_hfn(a, sk, ys, cs, gamma2), 256 * K) > omega
    }
    pub open spec fn rej_wit<const K: usize, const L: usize>(a: [[T; L]; K], sk: PrivateKey<K, L>, mu: Seq<u8>, ys: Seq<Seq<int>>, w1b: Seq<u8>, c: R,
            beta: int, gamma1: int, gamma2: int, omega: int, tau: int, lam4: int) -> bool {
        &&& w1_fields_ok(w1b, gamma2, K as int, sgn_w1fn(a, ys, gamma2))
        &&& sib_rel(tau, shake256(stream_take(shake256(mu + w1b), 0, lam4)), c)
        &&& attempt_rejected(a, sk, ys, c, beta, gamma1, gamma2, omega)
    }
    pub open spec fn rejected_at<const K: usize, const L: usize>(a: [[T; L]; K], sk: PrivateKey<K, L>, mu: Seq<u8>, rhopp: Seq<u8>, kp: int,
            beta: int, gamma1: int, gamma2: int, omega: int, tau: int, lam4: int) -> bool {
        exists|w1b: Seq<u8>, c: R| #[trigger] rej_wit(a, sk, mu, mask_ys(rhopp, kp, gamma1, L as int), w1b, c, beta, gamma1, gamma2, omega, tau, lam4)
    }
    // every attempt before kappa (counter values 0, l, 2l, ...) was rejected: kappa is the first accepted one
    pub open spec fn all_rejected_before<const K: usize, const L: usize>(a: [[T; L]; K], sk: PrivateKey<K, L>, mu: Seq<u8>, rhopp: Seq<u8>, kappa: int,
            beta: int, gamma1: int, gamma2: int, omega: int, tau: int, lam4: int) -> bool {
        forall|kp: int| 0 <= kp < kappa && kp % (L as int) == 0 ==> #[trigger] rejected_at(a, sk, mu, rhopp, kp, beta, gamma1, gamma2, omega, tau, lam4)
    }
    pub proof fn lemma_mod_between(k: int, kp: int, l: int)
        requires l > 0, k % l == 0, kp % l == 0, k <= kp < k + l,
        ensures kp == k,
    {
        lemma_fundamental_div_mod(k, l); lemma_fundamental_div_mod(kp, l);
        let a = k / l; let b = kp / l;
        assert(k == l * a && kp == l * b);
        assert(a == b) by (nonlinear_arith) requires l > 0, l * a <= l * b, l * b < l * a + l;
    }
    pub proof fn lemma_rej_step<const K: usize, const L: usize>(a: [[T; L]; K], sk: PrivateKey<K, L>, mu: Seq<u8>, rhopp: Seq<u8>, kappa: int, w1b: Seq<u8>, c: R,
            beta: int, gamma1: int, gamma2: int, omega: int, tau: int, lam4: int)
        requires L > 0, kappa >= 0, kappa % (L as int) == 0,
            all_rejected_before(a, sk, mu, rhopp, kappa, beta, gamma1, gamma2, omega, tau, lam4),
            rej_wit(a, sk, mu, mask_ys(rhopp, kappa, gamma1, L as int), w1b, c, beta, gamma1, gamma2, omega, tau, lam4),
        ensures all_rejected_before(a, sk, mu, rhopp, kappa + L, beta, gamma1, gamma2, omega, tau, lam4),
            (kappa + L) % (L as int) == 0, kappa + L >= 0,
    {
        lemma_mod_step(kappa, L as int);
        assert forall|kp: int| 0 <= kp < kappa + L && kp % (L as int) == 0 implies #[trigger] rejected_at(a, sk, mu, rhopp, kp, beta, gamma1, gamma2, omega, tau, lam4) by {
            if kp >= kappa { lemma_mod_between(kappa, kp, L as int); }
        }
    }
    pub open spec fn sign_rhopp(cap_k: Seq<u8>, rnd: Seq<u8>, mu: Seq<u8>) -> Seq<u8> { stream_take(shake256(cap_k + rnd + mu), 0, 64) }
    pub open spec fn sign_wit<const K: usize, const L: usize>(sk: PrivateKey<K, L>, sig: Seq<u8>, tau: int, lam4: int, a: [[T; L]; K], c: R, kappa: int) -> bool {
        expand_a_rel(sk.rho@, a) && sib_rel(tau, shake256(sig.subrange(0, lam4)), c) && c_small(c, tau) && kappa >= 0 && kappa % (L as int) == 0
    }
    // the challenge has tau coefficients +-1 and 256 - tau zeros (Algorithm 29's output shape)
    pub open spec fn c_small(c: R, tau: int) -> bool { (forall|n: int| 0 <= n < 256 ==> -1 <= #[trigger] c.0[n] <= 1) && nz_count(c.0@, 256) == tau }
    pub open spec fn sign_spec<const K: usize, const L: usize>(sig: Seq<u8>, sk: PrivateKey<K, L>, mu: Seq<u8>, rnd: Seq<u8>,
            beta: int, gamma1: int, gamma2: int, omega: int, tau: int, lam4: int) -> bool {
        exists|a: [[T; L]; K], c: R, kappa: int| #[trigger] sign_wit(sk, sig, tau, lam4, a, c, kappa)
            && sign_commit(a, mask_ys(sign_rhopp(sk.cap_k@, rnd, mu), kappa, gamma1, L as int), mu, sig, gamma2, lam4)
            && sign_attempt(a, sk, mask_ys(sign_rhopp(sk.cap_k@, rnd, mu), kappa, gamma1, L as int), c, sig, beta, gamma1, gamma2, omega, lam4)
            && all_rejected_before(a, sk, mu, sign_rhopp(sk.cap_k@, rnd, mu), kappa, beta, gamma1, gamma2, omega, tau, lam4)
    }
    // the same attempt, stated over the signer's working variables (before encoding)
    #[verifier::opaque]
    pub open spec fn attempt_exec<const K: usize, const L: usize>(a: [[T; L]; K], sk: PrivateKey<K, L>, ys: Seq<Seq<int>>, c: R, c_tilde: Seq<u8>,
            z: [R; L], h: [R; K], mu: Seq<u8>, beta: int, gamma1: int, gamma2: int, omega: int, lam4: int) -> bool {
        let cs = poly_ints(c.0);
        &&& forall|l: int, n: int| 0 <= l < L && 0 <= n < 256 ==> cong(#[trigger] z[l].0[n] as int, ys[l][n] + cmul(cs, sk.s_1_hat_mont[l].0)[n])
        &&& forall|l: int, n: int| 0 <= l < L && 0 <= n < 256 ==> in_red_dom(#[trigger] z[l].0[n] as int) && spec_abs(mod_pm(z[l].0[n] as int, Q as int)) < gamma1 - beta
        &&& forall|k: int, n: int| 0 <= k < K && 0 <= n < 256 ==>
                spec_abs(spec_low_bits(gamma2, #[trigger] sgn_w(a, ys, k)[n] - cmul(cs, sk.s_2_hat_mont[k].0)[n])) < gamma2 - beta
        &&& forall|k: int, n: int| 0 <= k < K && 0 <= n < 256 ==> spec_abs(mod_pm(#[trigger] cmul(cs, sk.t_0_hat_mont[k].0)[n], Q as int)) < gamma2
        &&& forall|k: int, n: int| 0 <= k < K && 0 <= n < 256 ==> #[trigger] h[k].0[n] as int == (if spec_make_hint(gamma2,
                Q - cmul(cs, sk.t_0_hat_mont[k].0)[n],
                sgn_w(a, ys, k)[n] - cmul(cs, sk.s_2_hat_mont[k].0)[n] + cmul(cs, sk.t_0_hat_mont[k].0)[n]) { 1int } else { 0int })
        &&& exists|w1b: Seq<u8>| #[trigger] w1_fields_ok(w1b, gamma2, K as int, sgn_w1fn(a, ys, gamma2)) && c_tilde == stream_take(shake256(mu + w1b), 0, lam4)
        &&& fn_count(sgn_hfn(a, sk, ys, cs, gamma2), 256 * K) <= omega
    }
    // ---- the signer's working variables in terms of the specification values (each line is a closure contract of sign_internal);
    // kept opaque in the signing loop so that the gate reasoning happens in the lemmas below, not in the loop's own query
    #[verifier::opaque]
    pub open spec fn sgn_vars1<const K: usize, const L: usize>(a: [[T; L]; K], sk: PrivateKey<K, L>, ys: Seq<Seq<int>>, cs: Seq<int>, gamma2: int, z: [R; L], r0: [R; K]) -> bool {
        &&& forall|l: int, n: int| 0 <= l < L && 0 <= n < 256 ==> in_red_dom(#[trigger] z[l].0[n] as int) && cong(z[l].0[n] as int, ys[l][n] + cmul(cs, sk.s_1_hat_mont[l].0)[n])
        &&& forall|k: int, n: int| 0 <= k < K && 0 <= n < 256 ==> -gamma2 <= #[trigger] r0[k].0[n] <= gamma2
                && r0[k].0[n] as int == spec_low_bits(gamma2, sgn_w(a, ys, k)[n] - cmul(cs, sk.s_2_hat_mont[k].0)[n])
    }
    #[verifier::opaque]
    pub open spec fn sgn_vars2<const K: usize, const L: usize>(a: [[T; L]; K], sk: PrivateKey<K, L>, ys: Seq<Seq<int>>, cs: Seq<int>, gamma2: int, c_t_0: [R; K], h: [R; K]) -> bool {
        &&& forall|k: int, n: int| 0 <= k < K && 0 <= n < 256 ==> #[trigger] c_t_0[k].0[n] as int == cmul(cs, sk.t_0_hat_mont[k].0)[n]
        &&& forall|k: int, n: int| 0 <= k < K && 0 <= n < 256 ==> #[trigger] h[k].0[n] as int == sgn_hfn(a, sk, ys, cs, gamma2)(k, n)
    }
    // first gate (Algorithm 7 line 23), rejecting side
    pub proof fn lemma_gate1_rej<const K: usize, const L: usize>(a: [[T; L]; K], sk: PrivateKey<K, L>, ys: Seq<Seq<int>>, c: R, z: [R; L], r0: [R; K],
            z_norm: i32, r0_norm: i32, beta: int, gamma1: int, gamma2: int, omega: int)
        requires sgn_vars1(a, sk, ys, poly_ints(c.0), gamma2, z, r0), inf_norm_is(z, z_norm), inf_norm_is(r0, r0_norm), 0 < gamma2 < 4_000_000,
            z_norm >= gamma1 - beta || r0_norm >= gamma2 - beta,
        ensures attempt_rejected(a, sk, ys, c, beta, gamma1, gamma2, omega),
    {
        reveal(sgn_vars1); reveal(inf_norm_is); reveal(attempt_rejected);
        let cs = poly_ints(c.0);
        if z_norm >= gamma1 - beta {
            let (x, n) = choose|x: int, n: int| 0 <= x < L && 0 <= n < 256 && spec_abs(mod_pm(#[trigger] z[x].0[n] as int, Q as int)) == z_norm;
            lemma_mod_pm_cong(z[x].0[n] as int, ys[x][n] + cmul(cs, sk.s_1_hat_mont[x].0)[n]);
            assert(rej_z(sk, ys, cs, x, n, gamma1 - beta));
        } else {
            let (x, n) = choose|x: int, n: int| 0 <= x < K && 0 <= n < 256 && spec_abs(mod_pm(#[trigger] r0[x].0[n] as int, Q as int)) == r0_norm;
            let rv = r0[x].0[n] as int;
            assert(rv == spec_low_bits(gamma2, sgn_w(a, ys, x)[n] - cmul(cs, sk.s_2_hat_mont[x].0)[n]));
            assert(-gamma2 <= rv <= gamma2);
            assert(mod_pm(rv, Q as int) == rv) by {
                if rv < 0 { assert((rv + Q) % (Q as int) == rv + Q); assert(rv % (Q as int) == rv + Q); }
            }
            assert(rej_r0(a, sk, ys, cs, x, n, gamma2, gamma2 - beta));
        }
    }
    // second gate (line 28), rejecting side
    pub proof fn lemma_gate2_rej<const K: usize, const L: usize>(a: [[T; L]; K], sk: PrivateKey<K, L>, ys: Seq<Seq<int>>, c: R, c_t_0: [R; K], h: [R; K],
            v: i32, beta: int, gamma1: int, gamma2: int, omega: int)
        requires sgn_vars2(a, sk, ys, poly_ints(c.0), gamma2, c_t_0, h), inf_norm_is(c_t_0, v), 1 <= K <= 8,
            v >= gamma2 || hint_count(h@, 256 * K) > omega,
        ensures attempt_rejected(a, sk, ys, c, beta, gamma1, gamma2, omega),
    {
        reveal(sgn_vars2); reveal(inf_norm_is); reveal(attempt_rejected);
        let cs = poly_ints(c.0);
        if v >= gamma2 {
            let (x, n) = choose|x: int, n: int| 0 <= x < K && 0 <= n < 256 && spec_abs(mod_pm(#[trigger] c_t_0[x].0[n] as int, Q as int)) == v;
            assert(c_t_0[x].0[n] as int == cmul(cs, sk.t_0_hat_mont[x].0)[n]);
            assert(rej_ct0(sk, cs, x, n, gamma2));
        } else {
            lemma_fn_count(h, sgn_hfn(a, sk, ys, cs, gamma2), 256 * K as int);
        }
    }
    // both gates passed: the working variables are an accepted attempt
    pub proof fn lemma_attempt_intro<const K: usize, const L: usize>(a: [[T; L]; K], sk: PrivateKey<K, L>, ys: Seq<Seq<int>>, c: R, c_tilde: Seq<u8>, w1b: Seq<u8>,
            z: [R; L], r0: [R; K], c_t_0: [R; K], h: [R; K], z_norm: i32, r0_norm: i32, v: i32, mu: Seq<u8>, beta: int, gamma1: int, gamma2: int, omega: int, lam4: int)
        requires sgn_vars1(a, sk, ys, poly_ints(c.0), gamma2, z, r0), sgn_vars2(a, sk, ys, poly_ints(c.0), gamma2, c_t_0, h), 1 <= K <= 8, hint_count(h@, 256 * K) <= omega,
            inf_norm_is(z, z_norm), inf_norm_is(r0, r0_norm), inf_norm_is(c_t_0, v), 0 < gamma2 < 4_000_000,
            z_norm < gamma1 - beta, r0_norm < gamma2 - beta, v < gamma2,
            w1_fields_ok(w1b, gamma2, K as int, sgn_w1fn(a, ys, gamma2)), c_tilde == stream_take(shake256(mu + w1b), 0, lam4),
        ensures attempt_exec(a, sk, ys, c, c_tilde, z, h, mu, beta, gamma1, gamma2, omega, lam4),
    {
        reveal(sgn_vars1); reveal(sgn_vars2); reveal(inf_norm_is); reveal(attempt_exec);
        let cs = poly_ints(c.0);
        lemma_fn_count(h, sgn_hfn(a, sk, ys, cs, gamma2), 256 * K as int);
        assert forall|k: int, n: int| 0 <= k < K && 0 <= n < 256 implies
            spec_abs(spec_low_bits(gamma2, #[trigger] sgn_w(a, ys, k)[n] - cmul(cs, sk.s_2_hat_mont[k].0)[n])) < gamma2 - beta by {
            let rv = r0[k].0[n] as int;
            assert(rv == spec_low_bits(gamma2, sgn_w(a, ys, k)[n] - cmul(cs, sk.s_2_hat_mont[k].0)[n]));
            assert(-gamma2 <= rv <= gamma2);
            assert(mod_pm(rv, Q as int) == rv) by {
                if rv < 0 { assert((rv + Q) % (Q as int) == rv + Q); assert(rv % (Q as int) == rv + Q); }
            }
            assert(spec_abs(mod_pm(r0[k].0[n] as int, Q as int)) <= r0_norm);
        }
        assert forall|k: int, n: int| 0 <= k < K && 0 <= n < 256 implies spec_abs(mod_pm(#[trigger] cmul(cs, sk.t_0_hat_mont[k].0)[n], Q as int)) < gamma2 by {
            assert(c_t_0[k].0[n] as int == cmul(cs, sk.t_0_hat_mont[k].0)[n]);
            assert(spec_abs(mod_pm(c_t_0[k].0[n] as int, Q as int)) <= v);
        }
        assert forall|l: int, n: int| 0 <= l < L && 0 <= n < 256 implies in_red_dom(#[trigger] z[l].0[n] as int) && spec_abs(mod_pm(z[l].0[n] as int, Q as int)) < gamma1 - beta by {
            assert(spec_abs(mod_pm(z[l].0[n] as int, Q as int)) <= z_norm);
        }
    }
    // the verifier's norm check on the decoded response is FIPS 204's ||z|| < gamma1 - beta over the encoded fields
    pub proof fn lemma_vfy_norm<const L: usize>(z: [R; L], sig: Seq<u8>, gamma1: int, beta: int, lam4: int, v: i32)
        requires inf_norm_is(z, v), 1 <= L, 0 < gamma1 < 4_000_000,
            forall|i: int, j: int| 0 <= i < L && 0 <= j < 256 ==> -gamma1 < #[trigger] z[i].0[j] <= gamma1 && z[i].0[j] as int == sig_z(sig, gamma1, lam4, i, j),
        ensures v <= gamma1, (v < gamma1 - beta) == sig_z_norm_ok(sig, gamma1, beta, lam4, L as int),
    {
        reveal(inf_norm_is);
        assert forall|i: int, j: int| 0 <= i < L && 0 <= j < 256 implies
            spec_abs(mod_pm(#[trigger] z[i].0[j] as int, Q as int)) == spec_abs(sig_z(sig, gamma1, lam4, i, j)) by {
            let zz = z[i].0[j] as int;
            assert(zz == sig_z(sig, gamma1, lam4, i, j));
            assert(mod_pm(zz, Q as int) == zz) by {
                if zz < 0 { assert((zz + Q) % (Q as int) == zz + Q); assert(zz % (Q as int) == zz + Q); }
            }
        }
        if v < gamma1 - beta {
            assert forall|i: int, j: int| 0 <= i < L && 0 <= j < 256 implies -(gamma1 - beta) < #[trigger] sig_z(sig, gamma1, lam4, i, j) < gamma1 - beta by {
                assert(spec_abs(mod_pm(z[i].0[j] as int, Q as int)) == spec_abs(sig_z(sig, gamma1, lam4, i, j)));
            }
        } else {
            let (x, n) = choose|x: int, n: int| 0 <= x < L && 0 <= n < 256 && spec_abs(mod_pm(#[trigger] z[x].0[n] as int, Q as int)) == v;
            assert(spec_abs(sig_z(sig, gamma1, lam4, x, n)) == v);
        }
        let (x, n) = choose|x: int, n: int| 0 <= x < L && 0 <= n < 256 && spec_abs(mod_pm(#[trigger] z[x].0[n] as int, Q as int)) == v;
        assert(spec_abs(sig_z(sig, gamma1, lam4, x, n)) == v);
    }
    pub proof fn lemma_mod_step(k: int, l: int)
        requires l > 0, k >= 0, k % l == 0,
        ensures (k + l) % l == 0, k + l >= 0,
    {
        vstd::arithmetic::div_mod::lemma_mod_add_multiples_vanish(k, l);
        assert((l + k) % l == k % l);
    }
    // from the accepted attempt over the working variables and sig_encode's field-level postcondition to sign_spec over the bytes
    pub proof fn lemma_sign_final<const K: usize, const L: usize>(sig: Seq<u8>, sk: PrivateKey<K, L>, a: [[T; L]; K], c: R, kappa: int, c_tilde: Seq<u8>,
            z: [R; L], zmodq: [R; L], h: [R; K], mu: Seq<u8>, rnd: Seq<u8>, rhopp: Seq<u8>, beta: int, gamma1: int, gamma2: int, omega: int, tau: int, lam4: int)
        requires
            gamma1_ok(gamma1), gamma2_ok(gamma2), 1 <= K <= 8, 1 <= L <= 8, 0 <= lam4 <= 64, kappa >= 0, kappa % (L as int) == 0,
            expand_a_rel(sk.rho@, a), sib_rel(tau, shake256(c_tilde), c), c_small(c, tau), rhopp == sign_rhopp(sk.cap_k@, rnd, mu),
            attempt_exec(a, sk, mask_ys(rhopp, kappa, gamma1, L as int), c, c_tilde, z, h, mu, beta, gamma1, gamma2, omega, lam4),
            all_rejected_before(a, sk, mu, rhopp, kappa, beta, gamma1, gamma2, omega, tau, lam4),
            forall|l: int, n: int| 0 <= l < L && 0 <= n < 256 ==> #[trigger] zmodq[l].0[n] as int == mod_pm(z[l].0[n] as int, Q as int),
            sig.subrange(0, lam4) == c_tilde,
            forall|i: int, j: int| 0 <= i < L && 0 <= j < 256 ==>
                #[trigger] field(sig_z_bytes(sig, gamma1, lam4, i), 1 + spec_bitlen(gamma1 - 1), j) == gamma1 - zmodq[i].0[j],
            forall|i: int, j: int| 0 <= i < K && 0 <= j < 256 ==>
                #[trigger] h[i].0[j] == (if hint_has(sig_hint_bytes(sig, gamma1, lam4, L as int), omega, i, j) { 1i32 } else { 0i32 }),
        ensures
            sign_spec(sig, sk, mu, rnd, beta, gamma1, gamma2, omega, tau, lam4),
            sig_z_norm_ok(sig, gamma1, beta, lam4, L as int),
    {
        reveal(attempt_exec);
        lemma_bitlen_consts();
        let ys = mask_ys(rhopp, kappa, gamma1, L as int);
        let cs = poly_ints(c.0);
        assert(spec_bitlen(gamma1 - 1 + gamma1) == 1 + spec_bitlen(gamma1 - 1));
        assert forall|l: int, n: int| 0 <= l < L && 0 <= n < 256 implies
            #[trigger] sig_z(sig, gamma1, lam4, l, n) == mod_pm(ys[l][n] + cmul(cs, sk.s_1_hat_mont[l].0)[n], Q as int)
            && -(gamma1 - beta) < sig_z(sig, gamma1, lam4, l, n) < gamma1 - beta by {
            assert(field(sig_z_bytes(sig, gamma1, lam4, l), 1 + spec_bitlen(gamma1 - 1), n) == gamma1 - zmodq[l].0[n]);
            assert(sig_z(sig, gamma1, lam4, l, n) == zmodq[l].0[n] as int);
            assert(cong(z[l].0[n] as int, ys[l][n] + cmul(cs, sk.s_1_hat_mont[l].0)[n]));
            lemma_mod_pm_cong(z[l].0[n] as int, ys[l][n] + cmul(cs, sk.s_1_hat_mont[l].0)[n]);
            assert(spec_abs(mod_pm(z[l].0[n] as int, Q as int)) < gamma1 - beta);
        }
        assert forall|k: int, n: int| 0 <= k < K && 0 <= n < 256 implies #[trigger] sig_h(sig, gamma1, lam4, L as int, omega, k, n) == h[k].0[n] as int by { }
        assert(sign_attempt(a, sk, ys, c, sig, beta, gamma1, gamma2, omega, lam4));
        assert(sign_commit(a, ys, mu, sig, gamma2, lam4));
        assert(sign_wit(sk, sig, tau, lam4, a, c, kappa));
    }
