    // ---- NTT^-1(NTT(w)) == w (mod q).  Each Gentleman-Sande layer of Algorithm 42 undoes the matching Cooley-Tukey layer of
    // Algorithm 41 up to a factor 2 (256 in total, cancelled by f = 256^-1); the two algorithms walk the zeta table in opposite
    // directions, which works because zetas[a] * zetas[zpair(a)] == -1 (mod q) for the block indices a, zpair(a) that meet.
    pub open spec fn zpair(a: int) -> int {
        if a < 2 { 2 - a } else if a < 4 { 5 - a } else if a < 8 { 11 - a } else if a < 16 { 23 - a } else if a < 32 { 47 - a }
        else if a < 64 { 95 - a } else if a < 128 { 191 - a } else { 383 - a }
    }
    // generated (tools: see DESIGN): BitRev8(a) + BitRev8(zpair(a)) == 256 for every block index, each line evaluated by the interpreter
    pub proof fn lemma_brv_pair(a: int)
        requires 1 <= a < 256,
        ensures brv8(a as u8) as int + brv8(zpair(a) as u8) as int == 256,
    {
        if a == 1 { assert(brv8(1u8) as int + brv8(1u8) as int == 256) by (compute_only); }
        else if a == 2 { assert(brv8(2u8) as int + brv8(3u8) as int == 256) by (compute_only); }
        else if a == 3 { assert(brv8(3u8) as int + brv8(2u8) as int == 256) by (compute_only); }
        else if a == 4 { assert(brv8(4u8) as int + brv8(7u8) as int == 256) by (compute_only); }
        else if a == 5 { assert(brv8(5u8) as int + brv8(6u8) as int == 256) by (compute_only); }
        else if a == 6 { assert(brv8(6u8) as int + brv8(5u8) as int == 256) by (compute_only); }
        else if a == 7 { assert(brv8(7u8) as int + brv8(4u8) as int == 256) by (compute_only); }
        else if a == 8 { assert(brv8(8u8) as int + brv8(15u8) as int == 256) by (compute_only); }
        else if a == 9 { assert(brv8(9u8) as int + brv8(14u8) as int == 256) by (compute_only); }
        else if a == 10 { assert(brv8(10u8) as int + brv8(13u8) as int == 256) by (compute_only); }
        else if a == 11 { assert(brv8(11u8) as int + brv8(12u8) as int == 256) by (compute_only); }
        else if a == 12 { assert(brv8(12u8) as int + brv8(11u8) as int == 256) by (compute_only); }
        else if a == 13 { assert(brv8(13u8) as int + brv8(10u8) as int == 256) by (compute_only); }
        else if a == 14 { assert(brv8(14u8) as int + brv8(9u8) as int == 256) by (compute_only); }
        else if a == 15 { assert(brv8(15u8) as int + brv8(8u8) as int == 256) by (compute_only); }
        else if a == 16 { assert(brv8(16u8) as int + brv8(31u8) as int == 256) by (compute_only); }
        else if a == 17 { assert(brv8(17u8) as int + brv8(30u8) as int == 256) by (compute_only); }
        else if a == 18 { assert(brv8(18u8) as int + brv8(29u8) as int == 256) by (compute_only); }
        else if a == 19 { assert(brv8(19u8) as int + brv8(28u8) as int == 256) by (compute_only); }
        else if a == 20 { assert(brv8(20u8) as int + brv8(27u8) as int == 256) by (compute_only); }
        else if a == 21 { assert(brv8(21u8) as int + brv8(26u8) as int == 256) by (compute_only); }
        else if a == 22 { assert(brv8(22u8) as int + brv8(25u8) as int == 256) by (compute_only); }
        else if a == 23 { assert(brv8(23u8) as int + brv8(24u8) as int == 256) by (compute_only); }
        else if a == 24 { assert(brv8(24u8) as int + brv8(23u8) as int == 256) by (compute_only); }
        else if a == 25 { assert(brv8(25u8) as int + brv8(22u8) as int == 256) by (compute_only); }
        else if a == 26 { assert(brv8(26u8) as int + brv8(21u8) as int == 256) by (compute_only); }
        else if a == 27 { assert(brv8(27u8) as int + brv8(20u8) as int == 256) by (compute_only); }
        else if a == 28 { assert(brv8(28u8) as int + brv8(19u8) as int == 256) by (compute_only); }
        else if a == 29 { assert(brv8(29u8) as int + brv8(18u8) as int == 256) by (compute_only); }
        else if a == 30 { assert(brv8(30u8) as int + brv8(17u8) as int == 256) by (compute_only); }
        else if a == 31 { assert(brv8(31u8) as int + brv8(16u8) as int == 256) by (compute_only); }
        else if a == 32 { assert(brv8(32u8) as int + brv8(63u8) as int == 256) by (compute_only); }
        else if a == 33 { assert(brv8(33u8) as int + brv8(62u8) as int == 256) by (compute_only); }
        else if a == 34 { assert(brv8(34u8) as int + brv8(61u8) as int == 256) by (compute_only); }
        else if a == 35 { assert(brv8(35u8) as int + brv8(60u8) as int == 256) by (compute_only); }
        else if a == 36 { assert(brv8(36u8) as int + brv8(59u8) as int == 256) by (compute_only); }
        else if a == 37 { assert(brv8(37u8) as int + brv8(58u8) as int == 256) by (compute_only); }
        else if a == 38 { assert(brv8(38u8) as int + brv8(57u8) as int == 256) by (compute_only); }
        else if a == 39 { assert(brv8(39u8) as int + brv8(56u8) as int == 256) by (compute_only); }
        else if a == 40 { assert(brv8(40u8) as int + brv8(55u8) as int == 256) by (compute_only); }
        else if a == 41 { assert(brv8(41u8) as int + brv8(54u8) as int == 256) by (compute_only); }
        else if a == 42 { assert(brv8(42u8) as int + brv8(53u8) as int == 256) by (compute_only); }
        else if a == 43 { assert(brv8(43u8) as int + brv8(52u8) as int == 256) by (compute_only); }
        else if a == 44 { assert(brv8(44u8) as int + brv8(51u8) as int == 256) by (compute_only); }
        else if a == 45 { assert(brv8(45u8) as int + brv8(50u8) as int == 256) by (compute_only); }
        else if a == 46 { assert(brv8(46u8) as int + brv8(49u8) as int == 256) by (compute_only); }
        else if a == 47 { assert(brv8(47u8) as int + brv8(48u8) as int == 256) by (compute_only); }
        else if a == 48 { assert(brv8(48u8) as int + brv8(47u8) as int == 256) by (compute_only); }
        else if a == 49 { assert(brv8(49u8) as int + brv8(46u8) as int == 256) by (compute_only); }
        else if a == 50 { assert(brv8(50u8) as int + brv8(45u8) as int == 256) by (compute_only); }
        else if a == 51 { assert(brv8(51u8) as int + brv8(44u8) as int == 256) by (compute_only); }
        else if a == 52 { assert(brv8(52u8) as int + brv8(43u8) as int == 256) by (compute_only); }
        else if a == 53 { assert(brv8(53u8) as int + brv8(42u8) as int == 256) by (compute_only); }
        else if a == 54 { assert(brv8(54u8) as int + brv8(41u8) as int == 256) by (compute_only); }
        else if a == 55 { assert(brv8(55u8) as int + brv8(40u8) as int == 256) by (compute_only); }
        else if a == 56 { assert(brv8(56u8) as int + brv8(39u8) as int == 256) by (compute_only); }
        else if a == 57 { assert(brv8(57u8) as int + brv8(38u8) as int == 256) by (compute_only); }
        else if a == 58 { assert(brv8(58u8) as int + brv8(37u8) as int == 256) by (compute_only); }
        else if a == 59 { assert(brv8(59u8) as int + brv8(36u8) as int == 256) by (compute_only); }
        else if a == 60 { assert(brv8(60u8) as int + brv8(35u8) as int == 256) by (compute_only); }
        else if a == 61 { assert(brv8(61u8) as int + brv8(34u8) as int == 256) by (compute_only); }
        else if a == 62 { assert(brv8(62u8) as int + brv8(33u8) as int == 256) by (compute_only); }
        else if a == 63 { assert(brv8(63u8) as int + brv8(32u8) as int == 256) by (compute_only); }
        else if a == 64 { assert(brv8(64u8) as int + brv8(127u8) as int == 256) by (compute_only); }
        else if a == 65 { assert(brv8(65u8) as int + brv8(126u8) as int == 256) by (compute_only); }
        else if a == 66 { assert(brv8(66u8) as int + brv8(125u8) as int == 256) by (compute_only); }
        else if a == 67 { assert(brv8(67u8) as int + brv8(124u8) as int == 256) by (compute_only); }
        else if a == 68 { assert(brv8(68u8) as int + brv8(123u8) as int == 256) by (compute_only); }
        else if a == 69 { assert(brv8(69u8) as int + brv8(122u8) as int == 256) by (compute_only); }
        else if a == 70 { assert(brv8(70u8) as int + brv8(121u8) as int == 256) by (compute_only); }
        else if a == 71 { assert(brv8(71u8) as int + brv8(120u8) as int == 256) by (compute_only); }
        else if a == 72 { assert(brv8(72u8) as int + brv8(119u8) as int == 256) by (compute_only); }
        else if a == 73 { assert(brv8(73u8) as int + brv8(118u8) as int == 256) by (compute_only); }
        else if a == 74 { assert(brv8(74u8) as int + brv8(117u8) as int == 256) by (compute_only); }
        else if a == 75 { assert(brv8(75u8) as int + brv8(116u8) as int == 256) by (compute_only); }
        else if a == 76 { assert(brv8(76u8) as int + brv8(115u8) as int == 256) by (compute_only); }
        else if a == 77 { assert(brv8(77u8) as int + brv8(114u8) as int == 256) by (compute_only); }
        else if a == 78 { assert(brv8(78u8) as int + brv8(113u8) as int == 256) by (compute_only); }
        else if a == 79 { assert(brv8(79u8) as int + brv8(112u8) as int == 256) by (compute_only); }
        else if a == 80 { assert(brv8(80u8) as int + brv8(111u8) as int == 256) by (compute_only); }
        else if a == 81 { assert(brv8(81u8) as int + brv8(110u8) as int == 256) by (compute_only); }
        else if a == 82 { assert(brv8(82u8) as int + brv8(109u8) as int == 256) by (compute_only); }
        else if a == 83 { assert(brv8(83u8) as int + brv8(108u8) as int == 256) by (compute_only); }
        else if a == 84 { assert(brv8(84u8) as int + brv8(107u8) as int == 256) by (compute_only); }
        else if a == 85 { assert(brv8(85u8) as int + brv8(106u8) as int == 256) by (compute_only); }
        else if a == 86 { assert(brv8(86u8) as int + brv8(105u8) as int == 256) by (compute_only); }
        else if a == 87 { assert(brv8(87u8) as int + brv8(104u8) as int == 256) by (compute_only); }
        else if a == 88 { assert(brv8(88u8) as int + brv8(103u8) as int == 256) by (compute_only); }
        else if a == 89 { assert(brv8(89u8) as int + brv8(102u8) as int == 256) by (compute_only); }
        else if a == 90 { assert(brv8(90u8) as int + brv8(101u8) as int == 256) by (compute_only); }
        else if a == 91 { assert(brv8(91u8) as int + brv8(100u8) as int == 256) by (compute_only); }
        else if a == 92 { assert(brv8(92u8) as int + brv8(99u8) as int == 256) by (compute_only); }
        else if a == 93 { assert(brv8(93u8) as int + brv8(98u8) as int == 256) by (compute_only); }
        else if a == 94 { assert(brv8(94u8) as int + brv8(97u8) as int == 256) by (compute_only); }
        else if a == 95 { assert(brv8(95u8) as int + brv8(96u8) as int == 256) by (compute_only); }
        else if a == 96 { assert(brv8(96u8) as int + brv8(95u8) as int == 256) by (compute_only); }
        else if a == 97 { assert(brv8(97u8) as int + brv8(94u8) as int == 256) by (compute_only); }
        else if a == 98 { assert(brv8(98u8) as int + brv8(93u8) as int == 256) by (compute_only); }
        else if a == 99 { assert(brv8(99u8) as int + brv8(92u8) as int == 256) by (compute_only); }
        else if a == 100 { assert(brv8(100u8) as int + brv8(91u8) as int == 256) by (compute_only); }
        else if a == 101 { assert(brv8(101u8) as int + brv8(90u8) as int == 256) by (compute_only); }
        else if a == 102 { assert(brv8(102u8) as int + brv8(89u8) as int == 256) by (compute_only); }
        else if a == 103 { assert(brv8(103u8) as int + brv8(88u8) as int == 256) by (compute_only); }
        else if a == 104 { assert(brv8(104u8) as int + brv8(87u8) as int == 256) by (compute_only); }
        else if a == 105 { assert(brv8(105u8) as int + brv8(86u8) as int == 256) by (compute_only); }
        else if a == 106 { assert(brv8(106u8) as int + brv8(85u8) as int == 256) by (compute_only); }
        else if a == 107 { assert(brv8(107u8) as int + brv8(84u8) as int == 256) by (compute_only); }
        else if a == 108 { assert(brv8(108u8) as int + brv8(83u8) as int == 256) by (compute_only); }
        else if a == 109 { assert(brv8(109u8) as int + brv8(82u8) as int == 256) by (compute_only); }
        else if a == 110 { assert(brv8(110u8) as int + brv8(81u8) as int == 256) by (compute_only); }
        else if a == 111 { assert(brv8(111u8) as int + brv8(80u8) as int == 256) by (compute_only); }
        else if a == 112 { assert(brv8(112u8) as int + brv8(79u8) as int == 256) by (compute_only); }
        else if a == 113 { assert(brv8(113u8) as int + brv8(78u8) as int == 256) by (compute_only); }
        else if a == 114 { assert(brv8(114u8) as int + brv8(77u8) as int == 256) by (compute_only); }
        else if a == 115 { assert(brv8(115u8) as int + brv8(76u8) as int == 256) by (compute_only); }
        else if a == 116 { assert(brv8(116u8) as int + brv8(75u8) as int == 256) by (compute_only); }
        else if a == 117 { assert(brv8(117u8) as int + brv8(74u8) as int == 256) by (compute_only); }
        else if a == 118 { assert(brv8(118u8) as int + brv8(73u8) as int == 256) by (compute_only); }
        else if a == 119 { assert(brv8(119u8) as int + brv8(72u8) as int == 256) by (compute_only); }
        else if a == 120 { assert(brv8(120u8) as int + brv8(71u8) as int == 256) by (compute_only); }
        else if a == 121 { assert(brv8(121u8) as int + brv8(70u8) as int == 256) by (compute_only); }
        else if a == 122 { assert(brv8(122u8) as int + brv8(69u8) as int == 256) by (compute_only); }
        else if a == 123 { assert(brv8(123u8) as int + brv8(68u8) as int == 256) by (compute_only); }
        else if a == 124 { assert(brv8(124u8) as int + brv8(67u8) as int == 256) by (compute_only); }
        else if a == 125 { assert(brv8(125u8) as int + brv8(66u8) as int == 256) by (compute_only); }
        else if a == 126 { assert(brv8(126u8) as int + brv8(65u8) as int == 256) by (compute_only); }
        else if a == 127 { assert(brv8(127u8) as int + brv8(64u8) as int == 256) by (compute_only); }
        else if a == 128 { assert(brv8(128u8) as int + brv8(255u8) as int == 256) by (compute_only); }
        else if a == 129 { assert(brv8(129u8) as int + brv8(254u8) as int == 256) by (compute_only); }
        else if a == 130 { assert(brv8(130u8) as int + brv8(253u8) as int == 256) by (compute_only); }
        else if a == 131 { assert(brv8(131u8) as int + brv8(252u8) as int == 256) by (compute_only); }
        else if a == 132 { assert(brv8(132u8) as int + brv8(251u8) as int == 256) by (compute_only); }
        else if a == 133 { assert(brv8(133u8) as int + brv8(250u8) as int == 256) by (compute_only); }
        else if a == 134 { assert(brv8(134u8) as int + brv8(249u8) as int == 256) by (compute_only); }
        else if a == 135 { assert(brv8(135u8) as int + brv8(248u8) as int == 256) by (compute_only); }
        else if a == 136 { assert(brv8(136u8) as int + brv8(247u8) as int == 256) by (compute_only); }
        else if a == 137 { assert(brv8(137u8) as int + brv8(246u8) as int == 256) by (compute_only); }
        else if a == 138 { assert(brv8(138u8) as int + brv8(245u8) as int == 256) by (compute_only); }
        else if a == 139 { assert(brv8(139u8) as int + brv8(244u8) as int == 256) by (compute_only); }
        else if a == 140 { assert(brv8(140u8) as int + brv8(243u8) as int == 256) by (compute_only); }
        else if a == 141 { assert(brv8(141u8) as int + brv8(242u8) as int == 256) by (compute_only); }
        else if a == 142 { assert(brv8(142u8) as int + brv8(241u8) as int == 256) by (compute_only); }
        else if a == 143 { assert(brv8(143u8) as int + brv8(240u8) as int == 256) by (compute_only); }
        else if a == 144 { assert(brv8(144u8) as int + brv8(239u8) as int == 256) by (compute_only); }
        else if a == 145 { assert(brv8(145u8) as int + brv8(238u8) as int == 256) by (compute_only); }
        else if a == 146 { assert(brv8(146u8) as int + brv8(237u8) as int == 256) by (compute_only); }
        else if a == 147 { assert(brv8(147u8) as int + brv8(236u8) as int == 256) by (compute_only); }
        else if a == 148 { assert(brv8(148u8) as int + brv8(235u8) as int == 256) by (compute_only); }
        else if a == 149 { assert(brv8(149u8) as int + brv8(234u8) as int == 256) by (compute_only); }
        else if a == 150 { assert(brv8(150u8) as int + brv8(233u8) as int == 256) by (compute_only); }
        else if a == 151 { assert(brv8(151u8) as int + brv8(232u8) as int == 256) by (compute_only); }
        else if a == 152 { assert(brv8(152u8) as int + brv8(231u8) as int == 256) by (compute_only); }
        else if a == 153 { assert(brv8(153u8) as int + brv8(230u8) as int == 256) by (compute_only); }
        else if a == 154 { assert(brv8(154u8) as int + brv8(229u8) as int == 256) by (compute_only); }
        else if a == 155 { assert(brv8(155u8) as int + brv8(228u8) as int == 256) by (compute_only); }
        else if a == 156 { assert(brv8(156u8) as int + brv8(227u8) as int == 256) by (compute_only); }
        else if a == 157 { assert(brv8(157u8) as int + brv8(226u8) as int == 256) by (compute_only); }
        else if a == 158 { assert(brv8(158u8) as int + brv8(225u8) as int == 256) by (compute_only); }
        else if a == 159 { assert(brv8(159u8) as int + brv8(224u8) as int == 256) by (compute_only); }
        else if a == 160 { assert(brv8(160u8) as int + brv8(223u8) as int == 256) by (compute_only); }
        else if a == 161 { assert(brv8(161u8) as int + brv8(222u8) as int == 256) by (compute_only); }
        else if a == 162 { assert(brv8(162u8) as int + brv8(221u8) as int == 256) by (compute_only); }
        else if a == 163 { assert(brv8(163u8) as int + brv8(220u8) as int == 256) by (compute_only); }
        else if a == 164 { assert(brv8(164u8) as int + brv8(219u8) as int == 256) by (compute_only); }
        else if a == 165 { assert(brv8(165u8) as int + brv8(218u8) as int == 256) by (compute_only); }
        else if a == 166 { assert(brv8(166u8) as int + brv8(217u8) as int == 256) by (compute_only); }
        else if a == 167 { assert(brv8(167u8) as int + brv8(216u8) as int == 256) by (compute_only); }
        else if a == 168 { assert(brv8(168u8) as int + brv8(215u8) as int == 256) by (compute_only); }
        else if a == 169 { assert(brv8(169u8) as int + brv8(214u8) as int == 256) by (compute_only); }
        else if a == 170 { assert(brv8(170u8) as int + brv8(213u8) as int == 256) by (compute_only); }
        else if a == 171 { assert(brv8(171u8) as int + brv8(212u8) as int == 256) by (compute_only); }
        else if a == 172 { assert(brv8(172u8) as int + brv8(211u8) as int == 256) by (compute_only); }
        else if a == 173 { assert(brv8(173u8) as int + brv8(210u8) as int == 256) by (compute_only); }
        else if a == 174 { assert(brv8(174u8) as int + brv8(209u8) as int == 256) by (compute_only); }
        else if a == 175 { assert(brv8(175u8) as int + brv8(208u8) as int == 256) by (compute_only); }
        else if a == 176 { assert(brv8(176u8) as int + brv8(207u8) as int == 256) by (compute_only); }
        else if a == 177 { assert(brv8(177u8) as int + brv8(206u8) as int == 256) by (compute_only); }
        else if a == 178 { assert(brv8(178u8) as int + brv8(205u8) as int == 256) by (compute_only); }
        else if a == 179 { assert(brv8(179u8) as int + brv8(204u8) as int == 256) by (compute_only); }
        else if a == 180 { assert(brv8(180u8) as int + brv8(203u8) as int == 256) by (compute_only); }
        else if a == 181 { assert(brv8(181u8) as int + brv8(202u8) as int == 256) by (compute_only); }
        else if a == 182 { assert(brv8(182u8) as int + brv8(201u8) as int == 256) by (compute_only); }
        else if a == 183 { assert(brv8(183u8) as int + brv8(200u8) as int == 256) by (compute_only); }
        else if a == 184 { assert(brv8(184u8) as int + brv8(199u8) as int == 256) by (compute_only); }
        else if a == 185 { assert(brv8(185u8) as int + brv8(198u8) as int == 256) by (compute_only); }
        else if a == 186 { assert(brv8(186u8) as int + brv8(197u8) as int == 256) by (compute_only); }
        else if a == 187 { assert(brv8(187u8) as int + brv8(196u8) as int == 256) by (compute_only); }
        else if a == 188 { assert(brv8(188u8) as int + brv8(195u8) as int == 256) by (compute_only); }
        else if a == 189 { assert(brv8(189u8) as int + brv8(194u8) as int == 256) by (compute_only); }
        else if a == 190 { assert(brv8(190u8) as int + brv8(193u8) as int == 256) by (compute_only); }
        else if a == 191 { assert(brv8(191u8) as int + brv8(192u8) as int == 256) by (compute_only); }
        else if a == 192 { assert(brv8(192u8) as int + brv8(191u8) as int == 256) by (compute_only); }
        else if a == 193 { assert(brv8(193u8) as int + brv8(190u8) as int == 256) by (compute_only); }
        else if a == 194 { assert(brv8(194u8) as int + brv8(189u8) as int == 256) by (compute_only); }
        else if a == 195 { assert(brv8(195u8) as int + brv8(188u8) as int == 256) by (compute_only); }
        else if a == 196 { assert(brv8(196u8) as int + brv8(187u8) as int == 256) by (compute_only); }
        else if a == 197 { assert(brv8(197u8) as int + brv8(186u8) as int == 256) by (compute_only); }
        else if a == 198 { assert(brv8(198u8) as int + brv8(185u8) as int == 256) by (compute_only); }
        else if a == 199 { assert(brv8(199u8) as int + brv8(184u8) as int == 256) by (compute_only); }
        else if a == 200 { assert(brv8(200u8) as int + brv8(183u8) as int == 256) by (compute_only); }
        else if a == 201 { assert(brv8(201u8) as int + brv8(182u8) as int == 256) by (compute_only); }
        else if a == 202 { assert(brv8(202u8) as int + brv8(181u8) as int == 256) by (compute_only); }
        else if a == 203 { assert(brv8(203u8) as int + brv8(180u8) as int == 256) by (compute_only); }
        else if a == 204 { assert(brv8(204u8) as int + brv8(179u8) as int == 256) by (compute_only); }
        else if a == 205 { assert(brv8(205u8) as int + brv8(178u8) as int == 256) by (compute_only); }
        else if a == 206 { assert(brv8(206u8) as int + brv8(177u8) as int == 256) by (compute_only); }
        else if a == 207 { assert(brv8(207u8) as int + brv8(176u8) as int == 256) by (compute_only); }
        else if a == 208 { assert(brv8(208u8) as int + brv8(175u8) as int == 256) by (compute_only); }
        else if a == 209 { assert(brv8(209u8) as int + brv8(174u8) as int == 256) by (compute_only); }
        else if a == 210 { assert(brv8(210u8) as int + brv8(173u8) as int == 256) by (compute_only); }
        else if a == 211 { assert(brv8(211u8) as int + brv8(172u8) as int == 256) by (compute_only); }
        else if a == 212 { assert(brv8(212u8) as int + brv8(171u8) as int == 256) by (compute_only); }
        else if a == 213 { assert(brv8(213u8) as int + brv8(170u8) as int == 256) by (compute_only); }
        else if a == 214 { assert(brv8(214u8) as int + brv8(169u8) as int == 256) by (compute_only); }
        else if a == 215 { assert(brv8(215u8) as int + brv8(168u8) as int == 256) by (compute_only); }
        else if a == 216 { assert(brv8(216u8) as int + brv8(167u8) as int == 256) by (compute_only); }
        else if a == 217 { assert(brv8(217u8) as int + brv8(166u8) as int == 256) by (compute_only); }
        else if a == 218 { assert(brv8(218u8) as int + brv8(165u8) as int == 256) by (compute_only); }
        else if a == 219 { assert(brv8(219u8) as int + brv8(164u8) as int == 256) by (compute_only); }
        else if a == 220 { assert(brv8(220u8) as int + brv8(163u8) as int == 256) by (compute_only); }
        else if a == 221 { assert(brv8(221u8) as int + brv8(162u8) as int == 256) by (compute_only); }
        else if a == 222 { assert(brv8(222u8) as int + brv8(161u8) as int == 256) by (compute_only); }
        else if a == 223 { assert(brv8(223u8) as int + brv8(160u8) as int == 256) by (compute_only); }
        else if a == 224 { assert(brv8(224u8) as int + brv8(159u8) as int == 256) by (compute_only); }
        else if a == 225 { assert(brv8(225u8) as int + brv8(158u8) as int == 256) by (compute_only); }
        else if a == 226 { assert(brv8(226u8) as int + brv8(157u8) as int == 256) by (compute_only); }
        else if a == 227 { assert(brv8(227u8) as int + brv8(156u8) as int == 256) by (compute_only); }
        else if a == 228 { assert(brv8(228u8) as int + brv8(155u8) as int == 256) by (compute_only); }
        else if a == 229 { assert(brv8(229u8) as int + brv8(154u8) as int == 256) by (compute_only); }
        else if a == 230 { assert(brv8(230u8) as int + brv8(153u8) as int == 256) by (compute_only); }
        else if a == 231 { assert(brv8(231u8) as int + brv8(152u8) as int == 256) by (compute_only); }
        else if a == 232 { assert(brv8(232u8) as int + brv8(151u8) as int == 256) by (compute_only); }
        else if a == 233 { assert(brv8(233u8) as int + brv8(150u8) as int == 256) by (compute_only); }
        else if a == 234 { assert(brv8(234u8) as int + brv8(149u8) as int == 256) by (compute_only); }
        else if a == 235 { assert(brv8(235u8) as int + brv8(148u8) as int == 256) by (compute_only); }
        else if a == 236 { assert(brv8(236u8) as int + brv8(147u8) as int == 256) by (compute_only); }
        else if a == 237 { assert(brv8(237u8) as int + brv8(146u8) as int == 256) by (compute_only); }
        else if a == 238 { assert(brv8(238u8) as int + brv8(145u8) as int == 256) by (compute_only); }
        else if a == 239 { assert(brv8(239u8) as int + brv8(144u8) as int == 256) by (compute_only); }
        else if a == 240 { assert(brv8(240u8) as int + brv8(143u8) as int == 256) by (compute_only); }
        else if a == 241 { assert(brv8(241u8) as int + brv8(142u8) as int == 256) by (compute_only); }
        else if a == 242 { assert(brv8(242u8) as int + brv8(141u8) as int == 256) by (compute_only); }
        else if a == 243 { assert(brv8(243u8) as int + brv8(140u8) as int == 256) by (compute_only); }
        else if a == 244 { assert(brv8(244u8) as int + brv8(139u8) as int == 256) by (compute_only); }
        else if a == 245 { assert(brv8(245u8) as int + brv8(138u8) as int == 256) by (compute_only); }
        else if a == 246 { assert(brv8(246u8) as int + brv8(137u8) as int == 256) by (compute_only); }
        else if a == 247 { assert(brv8(247u8) as int + brv8(136u8) as int == 256) by (compute_only); }
        else if a == 248 { assert(brv8(248u8) as int + brv8(135u8) as int == 256) by (compute_only); }
        else if a == 249 { assert(brv8(249u8) as int + brv8(134u8) as int == 256) by (compute_only); }
        else if a == 250 { assert(brv8(250u8) as int + brv8(133u8) as int == 256) by (compute_only); }
        else if a == 251 { assert(brv8(251u8) as int + brv8(132u8) as int == 256) by (compute_only); }
        else if a == 252 { assert(brv8(252u8) as int + brv8(131u8) as int == 256) by (compute_only); }
        else if a == 253 { assert(brv8(253u8) as int + brv8(130u8) as int == 256) by (compute_only); }
        else if a == 254 { assert(brv8(254u8) as int + brv8(129u8) as int == 256) by (compute_only); }
        else if a == 255 { assert(brv8(255u8) as int + brv8(128u8) as int == 256) by (compute_only); }
    }
    pub proof fn lemma_zpow_step(j: int)
        requires j >= 1,
        ensures cong(zpow(j), zpow(j - 1) * 1753), 0 <= zpow(j) < Q,
    {
        lemma_cong_mod(zpow(j - 1) * 1753);
    }
    pub proof fn lemma_zpow_add(a: int, b: int)
        requires a >= 0, b >= 0,
        ensures cong(zpow(a) * zpow(b), zpow(a + b)),
        decreases b
    {
        if b == 0 {
            assert(zpow(0) == 1);
            assert(zpow(a) * 1 == zpow(a)) by (nonlinear_arith);
            lemma_cong_refl(zpow(a));
        } else {
            lemma_zpow_add(a, b - 1);
            lemma_zpow_step(b);
            lemma_zpow_step(a + b);
            // zpow(a)*zpow(b) == zpow(a)*(zpow(b-1)*1753) == (zpow(a)*zpow(b-1))*1753 == zpow(a+b-1)*1753 == zpow(a+b)
            lemma_cong_refl(zpow(a));
            lemma_cong_mul(zpow(a), zpow(a), zpow(b), zpow(b - 1) * 1753);
            assert(zpow(a) * (zpow(b - 1) * 1753) == (zpow(a) * zpow(b - 1)) * 1753) by (nonlinear_arith);
            lemma_cong_refl(1753);
            lemma_cong_mul(zpow(a) * zpow(b - 1), zpow(a + b - 1), 1753, 1753);
            lemma_cong_trans(zpow(a) * zpow(b), (zpow(a) * zpow(b - 1)) * 1753, zpow(a + b - 1) * 1753);
            lemma_cong_sym(zpow(a + b), zpow(a + b - 1) * 1753);
            lemma_cong_trans(zpow(a) * zpow(b), zpow(a + b - 1) * 1753, zpow(a + b));
        }
    }
    pub proof fn lemma_zpow_256()
        ensures zpow(256) == 8_380_416,
    {
        assert(zpow(256) == 8_380_416) by (compute_only);
    }
    pub open spec fn zpair_ok(a: int) -> bool { cong(zeta_brv(a) * (-zeta_brv(zpair(a))), 1) }
    pub proof fn lemma_zpair_ok(a: int)
        requires 1 <= a < 256,
        ensures zpair_ok(a),
    {
        lemma_brv_pair(a);
        let e = brv8(a as u8) as int; let f = brv8(zpair(a) as u8) as int;
        assert(1 <= zpair(a) < 256);
        assert(zeta_brv(a) == zpow(e) && zeta_brv(zpair(a)) == zpow(f));
        lemma_zpow_add(e, f);
        lemma_zpow_256();
        let p = zpow(e) * zpow(f);
        // p == -1 (mod q), so p * (-1) == 1
        assert(cong(8_380_416, -1)) by { lemma_cong_from(8_380_416, -1, 1); }
        lemma_cong_trans(p, zpow(256), -1);
        lemma_cong_refl(-1);
        lemma_cong_mul(p, -1, -1, -1);
        assert(zpow(e) * (-zpow(f)) == p * (-1)) by (nonlinear_arith) requires p == zpow(e) * zpow(f);
        assert((-1int) * (-1int) == 1);
    }

    // closed form of one Cooley-Tukey block (inner loop of Algorithm 41)
    pub proof fn lemma_ntt_j_loop_at(w: Seq<int>, z: int, start: int, len: int, j: int)
        requires w.len() == 256, 0 <= start <= j <= start + len, start + 2 * len <= 256, len >= 0,
        ensures ({ let r = ntt_j_loop(w, z, start, len, j);
            &&& r.len() == 256
            &&& forall|i: int| j <= i < start + len ==> #[trigger] r[i] == w[i] + z * w[i + len]
            &&& forall|i: int| j + len <= i < start + 2 * len ==> #[trigger] r[i] == w[i - len] - z * w[i]
            &&& forall|i: int| 0 <= i < 256 && !(j <= i < start + len) && !(j + len <= i < start + 2 * len) ==> #[trigger] r[i] == w[i] }),
        decreases start + len - j
    {
        if j < start + len {
            let t = z * w[j + len];
            let w2 = w.update(j + len, w[j] - t).update(j, w[j] + t);
            lemma_ntt_j_loop_at(w2, z, start, len, j + 1);
            let r = ntt_j_loop(w, z, start, len, j);
            assert(r == ntt_j_loop(w2, z, start, len, j + 1));
            assert forall|i: int| j <= i < start + len implies #[trigger] r[i] == w[i] + z * w[i + len] by {
                if i > j { assert(w2[i] == w[i]); assert(w2[i + len] == w[i + len]); }
            }
            assert forall|i: int| j + len <= i < start + 2 * len implies #[trigger] r[i] == w[i - len] - z * w[i] by {
                if i > j + len { assert(w2[i] == w[i]); assert(w2[i - len] == w[i - len]); }
            }
            assert forall|i: int| 0 <= i < 256 && !(j <= i < start + len) && !(j + len <= i < start + 2 * len) implies #[trigger] r[i] == w[i] by {
                assert(w2[i] == w[i]);
            }
        }
    }
    // closed form of one Gentleman-Sande block (inner loop of Algorithm 42)
    pub proof fn lemma_intt_j_loop_at(w: Seq<int>, z: int, start: int, len: int, j: int)
        requires w.len() == 256, 0 <= start <= j <= start + len, start + 2 * len <= 256, len >= 0,
        ensures ({ let r = intt_j_loop(w, z, start, len, j);
            &&& r.len() == 256
            &&& forall|i: int| j <= i < start + len ==> #[trigger] r[i] == w[i] + w[i + len]
            &&& forall|i: int| j + len <= i < start + 2 * len ==> #[trigger] r[i] == z * (w[i - len] - w[i])
            &&& forall|i: int| 0 <= i < 256 && !(j <= i < start + len) && !(j + len <= i < start + 2 * len) ==> #[trigger] r[i] == w[i] }),
        decreases start + len - j
    {
        if j < start + len {
            let t = w[j];
            let w2 = w.update(j, t + w[j + len]).update(j + len, z * (t - w[j + len]));
            lemma_intt_j_loop_at(w2, z, start, len, j + 1);
            let r = intt_j_loop(w, z, start, len, j);
            assert(r == intt_j_loop(w2, z, start, len, j + 1));
            assert forall|i: int| j <= i < start + len implies #[trigger] r[i] == w[i] + w[i + len] by {
                if i > j { assert(w2[i] == w[i]); assert(w2[i + len] == w[i + len]); }
            }
            assert forall|i: int| j + len <= i < start + 2 * len implies #[trigger] r[i] == z * (w[i - len] - w[i]) by {
                if i > j + len { assert(w2[i] == w[i]); assert(w2[i - len] == w[i - len]); }
            }
            assert forall|i: int| 0 <= i < 256 && !(j <= i < start + len) && !(j + len <= i < start + 2 * len) implies #[trigger] r[i] == w[i] by {
                assert(w2[i] == w[i]);
            }
        }
    }
    // with cnt blocks left: 256 - start == 2*len*cnt
    pub proof fn lemma_blocks_step(start: int, len: int, cnt: int)
        requires cnt >= 1, len >= 1, start >= 0, 256 - start == 2 * len * cnt,
        ensures start < 256, start + 2 * len <= 256, 256 - (start + 2 * len) == 2 * len * (cnt - 1),
    {
        assert(2 * len * cnt >= 2 * len) by (nonlinear_arith) requires cnt >= 1, len >= 1;
        assert(2 * len * (cnt - 1) == 2 * len * cnt - 2 * len) by (nonlinear_arith);
    }
    pub proof fn lemma_ntt_start_loop_prefix(w: Seq<int>, len: int, m: int, start: int, cnt: int)
        requires w.len() == 256, start >= 0, 1 <= len <= 128, cnt >= 0, 256 - start == 2 * len * cnt,
        ensures ntt_start_loop(w, len, m, start).len() == 256,
            forall|i: int| 0 <= i < start && i < 256 ==> #[trigger] ntt_start_loop(w, len, m, start)[i] == w[i],
        decreases cnt
    {
        if cnt > 0 {
            lemma_blocks_step(start, len, cnt);
            let w2 = ntt_j_loop(w, zeta_brv(m + 1), start, len, start);
            lemma_ntt_j_loop_at(w, zeta_brv(m + 1), start, len, start);
            lemma_ntt_start_loop_prefix(w2, len, m + 1, start + 2 * len, cnt - 1);
            assert(ntt_start_loop(w, len, m, start) == ntt_start_loop(w2, len, m + 1, start + 2 * len));
            assert forall|i: int| 0 <= i < start && i < 256 implies #[trigger] ntt_start_loop(w, len, m, start)[i] == w[i] by {
                assert(w2[i] == w[i]);
            }
        } else {
            assert(start == 256) by (nonlinear_arith) requires 256 - start == 2 * len * cnt, cnt == 0;
        }
    }
    pub proof fn lemma_intt_start_loop_prefix(w: Seq<int>, len: int, m: int, start: int, cnt: int)
        requires w.len() == 256, start >= 0, 1 <= len <= 128, cnt >= 0, 256 - start == 2 * len * cnt,
        ensures intt_start_loop(w, len, m, start).len() == 256,
            forall|i: int| 0 <= i < start && i < 256 ==> #[trigger] intt_start_loop(w, len, m, start)[i] == w[i],
        decreases cnt
    {
        if cnt > 0 {
            lemma_blocks_step(start, len, cnt);
            let w2 = intt_j_loop(w, -zeta_brv(m - 1), start, len, start);
            lemma_intt_j_loop_at(w, -zeta_brv(m - 1), start, len, start);
            lemma_intt_start_loop_prefix(w2, len, m - 1, start + 2 * len, cnt - 1);
            assert(intt_start_loop(w, len, m, start) == intt_start_loop(w2, len, m - 1, start + 2 * len));
            assert forall|i: int| 0 <= i < start && i < 256 implies #[trigger] intt_start_loop(w, len, m, start)[i] == w[i] by {
                assert(w2[i] == w[i]);
            }
        } else {
            assert(start == 256) by (nonlinear_arith) requires 256 - start == 2 * len * cnt, cnt == 0;
        }
    }
    // the butterfly algebra: GS(CT(ua, ub)) == (2 ua, 2 ub) when the two zetas multiply to 1, carried through a common factor c
    pub proof fn lemma_gs_ct(xa: int, xb: int, c: int, ua: int, ub: int, z: int, zi: int)
        requires cong(xa, c * (ua + z * ub)), cong(xb, c * (ua - z * ub)), cong(z * zi, 1),
        ensures cong(xa + xb, 2 * c * ua), cong(zi * (xa - xb), 2 * c * ub),
    {
        let aa = c * (ua + z * ub); let bb = c * (ua - z * ub);
        lemma_cong_add(xa, aa, xb, bb);
        assert(aa + bb == 2 * c * ua) by (nonlinear_arith) requires aa == c * (ua + z * ub), bb == c * (ua - z * ub);
        lemma_cong_refl(zi);
        lemma_cong_mul(zi, zi, xa - xb, aa - bb);
        let r = 2 * c * ub;
        assert(zi * (aa - bb) == (z * zi) * r) by (nonlinear_arith) requires aa == c * (ua + z * ub), bb == c * (ua - z * ub), r == 2 * c * ub;
        lemma_cong_refl(r);
        lemma_cong_mul(z * zi, 1, r, r);
        assert(1 * r == r);
        lemma_cong_trans(zi * (xa - xb), zi * (aa - bb), r);
    }
    pub open spec fn layer_lo(lo: int) -> bool { lo == 1 || lo == 2 || lo == 4 || lo == 8 || lo == 16 || lo == 32 || lo == 64 || lo == 128 }
    // one inverse layer applied to (c times) one forward layer, from block `start` on
    pub proof fn lemma_rt_start(u: Seq<int>, x: Seq<int>, c: int, len: int, m: int, mi: int, start: int, lo: int, cnt: int)
        requires u.len() == 256, x.len() == 256, 1 <= len <= 128, start >= 0, cnt >= 0, 256 - start == 2 * len * cnt,
            layer_lo(lo), lo <= m + 1, m + cnt == 2 * lo - 1, m + mi == 3 * lo - 1,
            forall|i: int| start <= i < 256 ==> cong(#[trigger] x[i], c * ntt_start_loop(u, len, m, start)[i]),
        ensures forall|i: int| start <= i < 256 ==> cong(#[trigger] intt_start_loop(x, len, mi, start)[i], 2 * c * u[i]),
        decreases cnt
    {
        if cnt > 0 {
            lemma_blocks_step(start, len, cnt);
            let z = zeta_brv(m + 1); let zi = -zeta_brv(mi - 1);
            assert(mi - 1 == zpair(m + 1));
            lemma_zpair_ok(m + 1);
            assert(cong(z * zi, 1));
            let u2 = ntt_j_loop(u, z, start, len, start);
            let x2 = intt_j_loop(x, zi, start, len, start);
            lemma_ntt_j_loop_at(u, z, start, len, start);
            lemma_intt_j_loop_at(x, zi, start, len, start);
            let ns = ntt_start_loop(u, len, m, start);
            let is = intt_start_loop(x, len, mi, start);
            assert(ns == ntt_start_loop(u2, len, m + 1, start + 2 * len));
            assert(is == intt_start_loop(x2, len, mi - 1, start + 2 * len));
            lemma_ntt_start_loop_prefix(u2, len, m + 1, start + 2 * len, cnt - 1);
            lemma_intt_start_loop_prefix(x2, len, mi - 1, start + 2 * len, cnt - 1);
            assert forall|i: int| start + 2 * len <= i < 256 implies cong(#[trigger] x2[i], c * ntt_start_loop(u2, len, m + 1, start + 2 * len)[i]) by {
                assert(x2[i] == x[i]);
                assert(cong(x[i], c * ns[i]));
            }
            lemma_rt_start(u2, x2, c, len, m + 1, mi - 1, start + 2 * len, lo, cnt - 1);
            assert forall|i: int| start <= i < 256 implies cong(#[trigger] is[i], 2 * c * u[i]) by {
                if i < start + len {
                    let h = i + len;
                    assert(cong(x[i], c * ns[i])); assert(cong(x[h], c * ns[h]));
                    assert(ns[i] == u2[i] && ns[h] == u2[h]);
                    assert(u2[i] == u[i] + z * u[h]); assert(u2[h] == u[h - len] - z * u[h]);
                    lemma_gs_ct(x[i], x[h], c, u[i], u[h], z, zi);
                    assert(is[i] == x2[i]); assert(x2[i] == x[i] + x[h]);
                } else if i < start + 2 * len {
                    let l = i - len;
                    assert(cong(x[l], c * ns[l])); assert(cong(x[i], c * ns[i]));
                    assert(ns[l] == u2[l] && ns[i] == u2[i]);
                    assert(u2[l] == u[l] + z * u[l + len]); assert(u2[i] == u[i - len] - z * u[i]);
                    lemma_gs_ct(x[l], x[i], c, u[l], u[i], z, zi);
                    assert(is[i] == x2[i]); assert(x2[i] == zi * (x[i - len] - x[i]));
                } else {
                    assert(cong(intt_start_loop(x2, len, mi - 1, start + 2 * len)[i], 2 * c * u2[i]));
                    assert(u2[i] == u[i]);
                }
            }
        } else {
            assert(start == 256) by (nonlinear_arith) requires 256 - start == 2 * len * cnt, cnt == 0;
        }
    }
    // forward layer k (len = 128 >> k) is undone by inverse layer 7 - k
    pub proof fn lemma_rt_layer(u: Seq<int>, x: Seq<int>, c: int, k: int)
        requires 0 <= k <= 7, u.len() == 256, x.len() == 256,
            forall|i: int| 0 <= i < 256 ==> cong(#[trigger] x[i], c * ntt_start_loop(u, ntt_len(k), ntt_m0(k), 0)[i]),
        ensures forall|i: int| 0 <= i < 256 ==> cong(#[trigger] intt_start_loop(x, intt_len(7 - k), intt_m0(7 - k), 0)[i], 2 * c * u[i]),
            intt_start_loop(x, intt_len(7 - k), intt_m0(7 - k), 0).len() == 256,
    {
        let len = ntt_len(k); let lo = ntt_m0(k) + 1;
        assert(intt_len(7 - k) == len && intt_m0(7 - k) == 2 * lo && layer_lo(lo));
        assert(256 - 0 == 2 * len * lo) by {
            if k == 0 { assert(2 * 128 * 1 == 256); } else if k == 1 { assert(2 * 64 * 2 == 256); } else if k == 2 { assert(2 * 32 * 4 == 256); }
            else if k == 3 { assert(2 * 16 * 8 == 256); } else if k == 4 { assert(2 * 8 * 16 == 256); } else if k == 5 { assert(2 * 4 * 32 == 256); }
            else if k == 6 { assert(2 * 2 * 64 == 256); } else { assert(2 * 1 * 128 == 256); }
        }
        lemma_rt_start(u, x, c, len, ntt_m0(k), 2 * lo, 0, lo, lo);
        lemma_intt_start_loop_prefix(x, len, 2 * lo, 0, lo);
    }
    // the first k forward layers
    pub open spec fn ntt_prefix(w: Seq<int>, k: int) -> Seq<int>
        decreases k
    {
        if k <= 0 { w } else { ntt_start_loop(ntt_prefix(w, k - 1), ntt_len(k - 1), ntt_m0(k - 1), 0) }
    }
    pub proof fn lemma_ntt_prefix(w: Seq<int>, k: int)
        requires 0 <= k <= 8, w.len() == 256,
        ensures ntt_layers(w, 0) == ntt_layers(ntt_prefix(w, k), k), ntt_prefix(w, k).len() == 256,
        decreases k
    {
        if k > 0 {
            lemma_ntt_prefix(w, k - 1);
            let p = ntt_prefix(w, k - 1);
            let len = ntt_len(k - 1); let lo = ntt_m0(k - 1) + 1;
            assert(256 - 0 == 2 * len * lo) by {
                if k == 1 { assert(2 * 128 * 1 == 256); } else if k == 2 { assert(2 * 64 * 2 == 256); } else if k == 3 { assert(2 * 32 * 4 == 256); }
                else if k == 4 { assert(2 * 16 * 8 == 256); } else if k == 5 { assert(2 * 8 * 16 == 256); } else if k == 6 { assert(2 * 4 * 32 == 256); }
                else if k == 7 { assert(2 * 2 * 64 == 256); } else { assert(2 * 1 * 128 == 256); }
            }
            lemma_ntt_start_loop_prefix(p, len, ntt_m0(k - 1), 0, lo);
            assert(ntt_layers(p, k - 1) == ntt_layers(ntt_start_loop(p, len, ntt_m0(k - 1), 0), k));
        }
    }
    pub open spec fn pw2(n: int) -> int decreases n { if n <= 0 { 1 } else { 2 * pw2(n - 1) } }
    pub proof fn lemma_rt_layers(y: Seq<int>, c: int, w: Seq<int>, j: int)
        requires 0 <= j <= 8, w.len() == 256, y.len() == 256,
            forall|i: int| 0 <= i < 256 ==> cong(#[trigger] y[i], c * ntt_prefix(w, 8 - j)[i]),
        ensures forall|i: int| 0 <= i < 256 ==> cong(#[trigger] intt_layers(y, j)[i], pw2(8 - j) * c * w[i]),
        decreases 8 - j
    {
        if j < 8 {
            let k = 7 - j;
            lemma_ntt_prefix(w, k);
            let p = ntt_prefix(w, k);
            assert(ntt_prefix(w, 8 - j) == ntt_start_loop(p, ntt_len(k), ntt_m0(k), 0));
            lemma_rt_layer(p, y, c, k);
            let y2 = intt_start_loop(y, intt_len(j), intt_m0(j), 0);
            assert(intt_layers(y, j) == intt_layers(y2, j + 1));
            assert forall|i: int| 0 <= i < 256 implies cong(#[trigger] y2[i], (2 * c) * ntt_prefix(w, 8 - (j + 1))[i]) by {
                assert(cong(y2[i], 2 * c * p[i]));
                assert(2 * c * p[i] == (2 * c) * p[i]);
            }
            lemma_rt_layers(y2, 2 * c, w, j + 1);
            assert(pw2(8 - j) == 2 * pw2(7 - j));
            assert forall|i: int| 0 <= i < 256 implies cong(#[trigger] intt_layers(y, j)[i], pw2(8 - j) * c * w[i]) by {
                assert(cong(intt_layers(y2, j + 1)[i], pw2(7 - j) * (2 * c) * w[i]));
                assert(pw2(7 - j) * (2 * c) * w[i] == pw2(8 - j) * c * w[i]) by (nonlinear_arith) requires pw2(8 - j) == 2 * pw2(7 - j);
            }
        } else {
            assert forall|i: int| 0 <= i < 256 implies cong(#[trigger] intt_layers(y, j)[i], pw2(8 - j) * c * w[i]) by {
                assert(intt_layers(y, j) == y);
                assert(ntt_prefix(w, 0) == w);
                assert(pw2(0) == 1);
                assert(cong(y[i], c * w[i]));
                assert(pw2(0) * c * w[i] == c * w[i]) by (nonlinear_arith) requires pw2(0) == 1;
            }
        }
    }
    // FIPS 204 Algorithm 42 inverts Algorithm 41: NTT^-1(NTT(w)) is w reduced into [0, q)
    pub proof fn lemma_invntt_ntt(w: Seq<int>)
        requires w.len() == 256,
        ensures spec_invntt(spec_ntt(w)).len() == 256, forall|i: int| 0 <= i < 256 ==> #[trigger] spec_invntt(spec_ntt(w))[i] == w[i] % (Q as int),
    {
        reveal(spec_ntt); reveal(spec_invntt);
        lemma_ntt_prefix(w, 8);
        let x = spec_ntt(w);
        assert(x == ntt_prefix(w, 8));
        assert forall|i: int| 0 <= i < 256 implies cong(#[trigger] x[i], 1 * ntt_prefix(w, 8 - 0)[i]) by { lemma_cong_refl(x[i]); }
        lemma_rt_layers(x, 1, w, 0);
        let v = intt_layers(x, 0);
        assert(pw2(8) == 256) by (compute_only);
        assert forall|i: int| 0 <= i < 256 implies #[trigger] spec_invntt(x)[i] == w[i] % (Q as int) by {
            assert(cong(v[i], pw2(8) * 1 * w[i]));
            assert(pw2(8) * 1 * w[i] == 256 * w[i]) by (nonlinear_arith) requires pw2(8) == 256;
            lemma_cong_refl(8_347_681);
            lemma_cong_mul(8_347_681, 8_347_681, v[i], 256 * w[i]);
            assert(8_347_681 * (256 * w[i]) - w[i] == (255 * w[i]) * (Q as int)) by (nonlinear_arith);
            lemma_cong_from(8_347_681 * (256 * w[i]), w[i], 255 * w[i]);
            lemma_cong_trans(8_347_681 * v[i], 8_347_681 * (256 * w[i]), w[i]);
            lemma_cong_same_mod(8_347_681 * v[i], w[i]);
        }
    }
    // ---- the other direction: NTT(NTT^-1(x)) == x (mod q); same pairing of layers, Cooley-Tukey after Gentleman-Sande
    pub proof fn lemma_ct_gs(xa: int, xb: int, c: int, ua: int, ub: int, z: int, zi: int)
        requires cong(xa, c * (ua + ub)), cong(xb, c * (zi * (ua - ub))), cong(z * zi, 1),
        ensures cong(xa + z * xb, 2 * c * ua), cong(xa - z * xb, 2 * c * ub),
    {
        let aa = c * (ua + ub); let bb = c * (zi * (ua - ub));
        lemma_cong_refl(z);
        lemma_cong_mul(z, z, xb, bb);
        let d = c * (ua - ub);
        assert(z * bb == (z * zi) * d) by (nonlinear_arith) requires bb == c * (zi * (ua - ub)), d == c * (ua - ub);
        lemma_cong_refl(d);
        lemma_cong_mul(z * zi, 1, d, d);
        assert(1 * d == d);
        lemma_cong_trans(z * xb, z * bb, d);
        lemma_cong_add(xa, aa, z * xb, d);
        assert(aa + d == 2 * c * ua) by (nonlinear_arith) requires aa == c * (ua + ub), d == c * (ua - ub);
        assert(aa - d == 2 * c * ub) by (nonlinear_arith) requires aa == c * (ua + ub), d == c * (ua - ub);
    }
    pub proof fn lemma_tr_start(u: Seq<int>, x: Seq<int>, c: int, len: int, m: int, mi: int, start: int, lo: int, cnt: int)
        requires u.len() == 256, x.len() == 256, 1 <= len <= 128, start >= 0, cnt >= 0, 256 - start == 2 * len * cnt,
            layer_lo(lo), lo <= m + 1, m + cnt == 2 * lo - 1, m + mi == 3 * lo - 1,
            forall|i: int| start <= i < 256 ==> cong(#[trigger] x[i], c * intt_start_loop(u, len, mi, start)[i]),
        ensures forall|i: int| start <= i < 256 ==> cong(#[trigger] ntt_start_loop(x, len, m, start)[i], 2 * c * u[i]),
        decreases cnt
    {
        if cnt > 0 {
            lemma_blocks_step(start, len, cnt);
            let z = zeta_brv(m + 1); let zi = -zeta_brv(mi - 1);
            assert(mi - 1 == zpair(m + 1));
            lemma_zpair_ok(m + 1);
            assert(cong(z * zi, 1));
            let u2 = intt_j_loop(u, zi, start, len, start);
            let x2 = ntt_j_loop(x, z, start, len, start);
            lemma_intt_j_loop_at(u, zi, start, len, start);
            lemma_ntt_j_loop_at(x, z, start, len, start);
            let is = intt_start_loop(u, len, mi, start);
            let ns = ntt_start_loop(x, len, m, start);
            assert(is == intt_start_loop(u2, len, mi - 1, start + 2 * len));
            assert(ns == ntt_start_loop(x2, len, m + 1, start + 2 * len));
            lemma_intt_start_loop_prefix(u2, len, mi - 1, start + 2 * len, cnt - 1);
            lemma_ntt_start_loop_prefix(x2, len, m + 1, start + 2 * len, cnt - 1);
            assert forall|i: int| start + 2 * len <= i < 256 implies cong(#[trigger] x2[i], c * intt_start_loop(u2, len, mi - 1, start + 2 * len)[i]) by {
                assert(x2[i] == x[i]);
                assert(cong(x[i], c * is[i]));
            }
            lemma_tr_start(u2, x2, c, len, m + 1, mi - 1, start + 2 * len, lo, cnt - 1);
            assert forall|i: int| start <= i < 256 implies cong(#[trigger] ns[i], 2 * c * u[i]) by {
                if i < start + len {
                    let h = i + len;
                    assert(cong(x[i], c * is[i])); assert(cong(x[h], c * is[h]));
                    assert(is[i] == u2[i] && is[h] == u2[h]);
                    assert(u2[i] == u[i] + u[h]); assert(u2[h] == zi * (u[h - len] - u[h]));
                    lemma_ct_gs(x[i], x[h], c, u[i], u[h], z, zi);
                    assert(ns[i] == x2[i]); assert(x2[i] == x[i] + z * x[h]);
                } else if i < start + 2 * len {
                    let l = i - len;
                    assert(cong(x[l], c * is[l])); assert(cong(x[i], c * is[i]));
                    assert(is[l] == u2[l] && is[i] == u2[i]);
                    assert(u2[l] == u[l] + u[l + len]); assert(u2[i] == zi * (u[i - len] - u[i]));
                    lemma_ct_gs(x[l], x[i], c, u[l], u[i], z, zi);
                    assert(ns[i] == x2[i]); assert(x2[i] == x[i - len] - z * x[i]);
                } else {
                    assert(cong(ntt_start_loop(x2, len, m + 1, start + 2 * len)[i], 2 * c * u2[i]));
                    assert(u2[i] == u[i]);
                }
            }
        } else {
            assert(start == 256) by (nonlinear_arith) requires 256 - start == 2 * len * cnt, cnt == 0;
        }
    }
    // inverse layer 7 - k is undone by forward layer k
    pub proof fn lemma_tr_layer(u: Seq<int>, x: Seq<int>, c: int, k: int)
        requires 0 <= k <= 7, u.len() == 256, x.len() == 256,
            forall|i: int| 0 <= i < 256 ==> cong(#[trigger] x[i], c * intt_start_loop(u, intt_len(7 - k), intt_m0(7 - k), 0)[i]),
        ensures forall|i: int| 0 <= i < 256 ==> cong(#[trigger] ntt_start_loop(x, ntt_len(k), ntt_m0(k), 0)[i], 2 * c * u[i]),
            ntt_start_loop(x, ntt_len(k), ntt_m0(k), 0).len() == 256,
    {
        let len = ntt_len(k); let lo = ntt_m0(k) + 1;
        assert(intt_len(7 - k) == len && intt_m0(7 - k) == 2 * lo && layer_lo(lo));
        assert(256 - 0 == 2 * len * lo) by {
            if k == 0 { assert(2 * 128 * 1 == 256); } else if k == 1 { assert(2 * 64 * 2 == 256); } else if k == 2 { assert(2 * 32 * 4 == 256); }
            else if k == 3 { assert(2 * 16 * 8 == 256); } else if k == 4 { assert(2 * 8 * 16 == 256); } else if k == 5 { assert(2 * 4 * 32 == 256); }
            else if k == 6 { assert(2 * 2 * 64 == 256); } else { assert(2 * 1 * 128 == 256); }
        }
        lemma_tr_start(u, x, c, len, ntt_m0(k), 2 * lo, 0, lo, lo);
        lemma_ntt_start_loop_prefix(x, len, ntt_m0(k), 0, lo);
    }
    // the first j inverse layers
    pub open spec fn intt_prefix(w: Seq<int>, j: int) -> Seq<int>
        decreases j
    {
        if j <= 0 { w } else { intt_start_loop(intt_prefix(w, j - 1), intt_len(j - 1), intt_m0(j - 1), 0) }
    }
    pub proof fn lemma_intt_prefix(w: Seq<int>, j: int)
        requires 0 <= j <= 8, w.len() == 256,
        ensures intt_layers(w, 0) == intt_layers(intt_prefix(w, j), j), intt_prefix(w, j).len() == 256,
        decreases j
    {
        if j > 0 {
            lemma_intt_prefix(w, j - 1);
            let p = intt_prefix(w, j - 1);
            let len = intt_len(j - 1); let cnt = intt_m0(j - 1) / 2;
            assert(256 - 0 == 2 * len * cnt) by {
                if j == 1 { assert(2 * 1 * 128 == 256); } else if j == 2 { assert(2 * 2 * 64 == 256); } else if j == 3 { assert(2 * 4 * 32 == 256); }
                else if j == 4 { assert(2 * 8 * 16 == 256); } else if j == 5 { assert(2 * 16 * 8 == 256); } else if j == 6 { assert(2 * 32 * 4 == 256); }
                else if j == 7 { assert(2 * 64 * 2 == 256); } else { assert(2 * 128 * 1 == 256); }
            }
            lemma_intt_start_loop_prefix(p, len, intt_m0(j - 1), 0, cnt);
            assert(intt_layers(p, j - 1) == intt_layers(intt_start_loop(p, len, intt_m0(j - 1), 0), j));
        }
    }
    pub proof fn lemma_tr_layers(y: Seq<int>, c: int, x: Seq<int>, k: int)
        requires 0 <= k <= 8, x.len() == 256, y.len() == 256,
            forall|i: int| 0 <= i < 256 ==> cong(#[trigger] y[i], c * intt_prefix(x, 8 - k)[i]),
        ensures forall|i: int| 0 <= i < 256 ==> cong(#[trigger] ntt_layers(y, k)[i], pw2(8 - k) * c * x[i]),
        decreases 8 - k
    {
        if k < 8 {
            let j = 7 - k;
            lemma_intt_prefix(x, j);
            let p = intt_prefix(x, j);
            assert(intt_prefix(x, 8 - k) == intt_start_loop(p, intt_len(j), intt_m0(j), 0));
            lemma_tr_layer(p, y, c, k);
            let y2 = ntt_start_loop(y, ntt_len(k), ntt_m0(k), 0);
            assert(ntt_layers(y, k) == ntt_layers(y2, k + 1));
            assert forall|i: int| 0 <= i < 256 implies cong(#[trigger] y2[i], (2 * c) * intt_prefix(x, 8 - (k + 1))[i]) by {
                assert(cong(y2[i], 2 * c * p[i]));
                assert(2 * c * p[i] == (2 * c) * p[i]);
            }
            lemma_tr_layers(y2, 2 * c, x, k + 1);
            assert(pw2(8 - k) == 2 * pw2(7 - k));
            assert forall|i: int| 0 <= i < 256 implies cong(#[trigger] ntt_layers(y, k)[i], pw2(8 - k) * c * x[i]) by {
                assert(cong(ntt_layers(y2, k + 1)[i], pw2(7 - k) * (2 * c) * x[i]));
                assert(pw2(7 - k) * (2 * c) * x[i] == pw2(8 - k) * c * x[i]) by (nonlinear_arith) requires pw2(8 - k) == 2 * pw2(7 - k);
            }
        } else {
            assert forall|i: int| 0 <= i < 256 implies cong(#[trigger] ntt_layers(y, k)[i], pw2(8 - k) * c * x[i]) by {
                assert(ntt_layers(y, k) == y);
                assert(intt_prefix(x, 0) == x);
                assert(pw2(0) == 1);
                assert(cong(y[i], c * x[i]));
                assert(pw2(0) * c * x[i] == c * x[i]) by (nonlinear_arith) requires pw2(0) == 1;
            }
        }
    }
    // FIPS 204 Algorithm 41 inverts Algorithm 42 as well: NTT(NTT^-1(x)) == x (mod q)
    pub proof fn lemma_ntt_invntt(x: Seq<int>)
        requires x.len() == 256,
        ensures spec_invntt(x).len() == 256, forall|i: int| 0 <= i < 256 ==> cong(#[trigger] spec_ntt(spec_invntt(x))[i], x[i]),
    {
        reveal(spec_ntt); reveal(spec_invntt);
        lemma_intt_prefix(x, 8);
        let v = intt_layers(x, 0);
        assert(v == intt_prefix(x, 8));
        let y = spec_invntt(x);
        assert forall|i: int| 0 <= i < 256 implies cong(#[trigger] y[i], 8_347_681 * intt_prefix(x, 8 - 0)[i]) by {
            lemma_cong_mod(8_347_681 * v[i]);
        }
        lemma_tr_layers(y, 8_347_681, x, 0);
        assert(pw2(8) == 256) by (compute_only);
        assert forall|i: int| 0 <= i < 256 implies cong(#[trigger] spec_ntt(y)[i], x[i]) by {
            assert(cong(ntt_layers(y, 0)[i], pw2(8) * 8_347_681 * x[i]));
            assert(pw2(8) * 8_347_681 * x[i] - x[i] == (255 * x[i]) * (Q as int)) by (nonlinear_arith) requires pw2(8) == 256;
            lemma_cong_from(pw2(8) * 8_347_681 * x[i], x[i], 255 * x[i]);
            lemma_cong_trans(ntt_layers(y, 0)[i], pw2(8) * 8_347_681 * x[i], x[i]);
        }
    }
