    // ---- A-std: specifications assumed for std items the crate calls
    // debug_assert_eq!/assert_eq! failure path: reaching it is a proof obligation (requires false)
    #[verifier::external_type_specification]
    pub struct ExAssertKind(core::panicking::AssertKind);
    pub assume_specification<T: core::fmt::Debug + ?Sized, U: core::fmt::Debug + ?Sized> [core::panicking::assert_failed] (_0: core::panicking::AssertKind, _1: &T, _2: &U, _3: core::option::Option<core::fmt::Arguments<'_>>) -> !
        requires false;
    pub assume_specification[ i64::abs ](x: i64) -> (r: i64)
        requires x != i64::MIN,
        ensures r == (if x < 0 { -(x as int) } else { x as int });
    pub assume_specification[ i32::rem_euclid ](x: i32, y: i32) -> (r: i32)
        requires y > 0,
        ensures r == (x as int) % (y as int);
    pub assume_specification[ i32::abs ](x: i32) -> (r: i32)
        requires x != i32::MIN,
        ensures r == (if x < 0 { -(x as int) } else { x as int });
    // A-std: ilog2 (only ever applied to positive security parameters)
    pub open spec fn spec_bitlen(x: int) -> int decreases x { if x <= 0 { 0 } else { 1 + spec_bitlen(x / 2) } }
    pub assume_specification[ i32::ilog2 ](x: i32) -> (r: u32)
        requires x > 0,
        ensures r as int + 1 == spec_bitlen(x as int), r <= 30;
    pub assume_specification[ i32::abs_diff ](x: i32, y: i32) -> (r: u32)
        ensures r as int == (if x as int >= y as int { x as int - y as int } else { y as int - x as int });
    pub assume_specification[ i32::unsigned_abs ](x: i32) -> (r: u32)
        ensures r as int == (if x < 0 { -(x as int) } else { x as int });
    // R1: x.to_le_bytes()[0]  ==  x mod 256
    pub trait Le0: Sized {
        spec fn le0_spec(&self) -> u8;
        fn le0(&self) -> (r: u8) ensures r == self.le0_spec();
    }
    impl Le0 for usize {
        open spec fn le0_spec(&self) -> u8 { (*self as int % 256) as u8 }
        #[verifier::external_body]
        fn le0(&self) -> (r: u8) { self.to_le_bytes()[0] }
    }
    impl Le0 for u16 {
        open spec fn le0_spec(&self) -> u8 { (*self as int % 256) as u8 }
        #[verifier::external_body]
        fn le0(&self) -> (r: u8) { self.to_le_bytes()[0] }
    }
    impl Le0 for u64 {
        open spec fn le0_spec(&self) -> u8 { (*self as int % 256) as u8 }
        #[verifier::external_body]
        fn le0(&self) -> (r: u8) { self.to_le_bytes()[0] }
    }
    impl Le0 for u32 {
        open spec fn le0_spec(&self) -> u8 { (*self as int % 256) as u8 }
        #[verifier::external_body]
        fn le0(&self) -> (r: u8) { self.to_le_bytes()[0] }
    }
    impl Le0 for i32 {
        open spec fn le0_spec(&self) -> u8 { (*self as int % 256) as u8 }
        #[verifier::external_body]
        fn le0(&self) -> (r: u8) { self.to_le_bytes()[0] }
    }
    impl Le0 for u8 {
        open spec fn le0_spec(&self) -> u8 { *self }
        #[verifier::external_body]
        fn le0(&self) -> (r: u8) { self.to_le_bytes()[0] }
    }
    // R10: `a.iter().all(|&e| P(e))` is rewritten to vp_all(&a, |e| P(e)); this is Iterator::all over the 256 elements (proved)
    pub fn vp_all<F: Fn(i32) -> bool>(a: &[i32; 256], f: F) -> (r: bool)
        requires forall|x: i32| call_requires(f, (x,)),
        ensures r ==> forall|i: int| 0 <= i < 256 ==> call_ensures(f, (#[trigger] a[i],), true),
                !r ==> exists|i: int| 0 <= i < 256 && call_ensures(f, (#[trigger] a[i],), false),
    {
        let mut i: usize = 0;
        while i < 256
            invariant i <= 256, forall|x: i32| call_requires(f, (x,)),
                      forall|j: int| 0 <= j < i ==> call_ensures(f, (#[trigger] a[j],), true),
            decreases 256 - i,
        {
            if !f(a[i]) { return false; }
            i += 1;
        }
        true
    }
    // R12 (A-std): the lossless `From` conversions between primitive integers / bool the crate uses
    pub trait VpFrom<T>: Sized { spec fn vp_from_spec(x: T) -> Self; fn vp_from(x: T) -> (r: Self) ensures r == Self::vp_from_spec(x); }
    impl VpFrom<u8> for i32 { open spec fn vp_from_spec(x: u8) -> i32 { x as i32 } fn vp_from(x: u8) -> (r: i32) { x as i32 } }
    impl VpFrom<bool> for i32 { open spec fn vp_from_spec(x: bool) -> i32 { if x { 1i32 } else { 0i32 } } fn vp_from(x: bool) -> (r: i32) { if x { 1 } else { 0 } } }
    impl VpFrom<i32> for i64 { open spec fn vp_from_spec(x: i32) -> i64 { x as i64 } fn vp_from(x: i32) -> (r: i64) { x as i64 } }
    impl VpFrom<u8> for usize { open spec fn vp_from_spec(x: u8) -> usize { x as usize } fn vp_from(x: u8) -> (r: usize) { x as usize } }
    impl VpFrom<bool> for usize { open spec fn vp_from_spec(x: bool) -> usize { if x { 1usize } else { 0usize } } fn vp_from(x: bool) -> (r: usize) { if x { 1 } else { 0 } } }
    // R13 (A-std): slice -> array reference conversion; the length match that makes `.expect` safe is a precondition here
    #[verifier::external_body]
    pub fn vp_as_array<const N: usize>(s: &[u8]) -> (r: &[u8; N])
        requires s.len() == N,
        ensures r@ == s@,
    { <&[u8; N]>::try_from(s).expect("vp_as_array") }
    pub assume_specification[ u8::reverse_bits ](x: u8) -> (r: u8)
        ensures r == brv8(x);
    // R10b: maximum of f over all coefficients of a vector of polynomials (= flat_map + map + max on a non-empty iterator);
    // g is the (ghost) function the closure is proved to compute
    pub fn vp_max_map<const ROW: usize, F: Fn(i32) -> i32>(w: &[R; ROW], f: F, Ghost(g): Ghost<spec_fn(i32) -> i32>) -> (r: i32)
        requires ROW >= 1,
            forall|x: int, n: int| 0 <= x < ROW && 0 <= n < 256 ==> call_requires(f, (#[trigger] w[x].0[n],)),
            forall|e: i32, v: i32| call_ensures(f, (e,), v) ==> v == g(e),
        ensures
            forall|x: int, n: int| 0 <= x < ROW && 0 <= n < 256 ==> g(#[trigger] w[x].0[n]) <= r,
            exists|x: int, n: int| 0 <= x < ROW && 0 <= n < 256 && g(#[trigger] w[x].0[n]) == r,
    {
        let mut best = f(w[0].0[0]);
        let ghost mut bx: int = 0;
        let ghost mut bn: int = 0;
        let mut x: usize = 0;
        while x < ROW
            invariant x <= ROW, ROW >= 1, 0 <= bx < ROW, 0 <= bn < 256, g(w[bx].0[bn]) == best,
                forall|xx: int, n: int| 0 <= xx < ROW && 0 <= n < 256 ==> call_requires(f, (#[trigger] w[xx].0[n],)),
                forall|e: i32, v: i32| call_ensures(f, (e,), v) ==> v == g(e),
                forall|xx: int, n: int| 0 <= xx < x && 0 <= n < 256 ==> g(#[trigger] w[xx].0[n]) <= best,
            decreases ROW - x,
        {
            let mut n: usize = 0;
            while n < 256
                invariant n <= 256, x < ROW, ROW >= 1, 0 <= bx < ROW, 0 <= bn < 256, g(w[bx].0[bn]) == best,
                    forall|xx: int, nn: int| 0 <= xx < ROW && 0 <= nn < 256 ==> call_requires(f, (#[trigger] w[xx].0[nn],)),
                    forall|e: i32, v: i32| call_ensures(f, (e,), v) ==> v == g(e),
                    forall|xx: int, nn: int| 0 <= xx < x && 0 <= nn < 256 ==> g(#[trigger] w[xx].0[nn]) <= best,
                    forall|nn: int| 0 <= nn < n ==> g(#[trigger] w[x as int].0[nn]) <= best,
                decreases 256 - n,
            {
                let v = f(w[x].0[n]);
                if v > best { best = v; proof { bx = x as int; bn = n as int; } }
                n += 1;
            }
            x += 1;
        }
        best
    }
    // R7 (A-iter): `h.iter().map(|h_i| h_i.0.iter().sum::<i32>()).sum::<i32>()` is rewritten to vp_hint_weight(&h): the sum of all
    // coefficients, which for 0/1 coefficients is the number of ones (proved below)
    pub fn vp_hint_weight<const K: usize>(h: &[R; K]) -> (r: i32)
        requires K <= 8, forall|i: int, j: int| 0 <= i < K && 0 <= j < 256 ==> 0 <= #[trigger] h[i].0[j] <= 1,
        ensures r as int == hint_count(h@, 256 * K),
    {
        let mut s: i32 = 0;
        let mut i: usize = 0;
        while i < K
            invariant i <= K, K <= 8, s as int == hint_count(h@, 256 * i), 0 <= s <= 256 * i,
                forall|ii: int, j: int| 0 <= ii < K && 0 <= j < 256 ==> 0 <= #[trigger] h[ii].0[j] <= 1,
            decreases K - i,
        {
            let mut j: usize = 0;
            while j < 256
                invariant j <= 256, i < K, K <= 8, s as int == hint_count(h@, 256 * i + j), 0 <= s <= 256 * i + j,
                    forall|ii: int, jj: int| 0 <= ii < K && 0 <= jj < 256 ==> 0 <= #[trigger] h[ii].0[jj] <= 1,
                decreases 256 - j,
            {
                proof {
                    let n = 256 * i + j + 1;
                    assert((n - 1) / 256 == i as int && (n - 1) % 256 == j as int);
                    assert(h@[i as int] == h[i as int]);
                }
                s = s + h[i].0[j];
                j += 1;
            }
            i += 1;
        }
        s
    }
    // R14: `continue` inside a `for` body that is dead under the function's precondition (!CTEST) is replaced by a call that must be
    // proved unreachable
    pub fn vp_unreachable()
        requires false,
    { }
