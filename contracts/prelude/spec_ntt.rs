    // ---- congruence mod q: lemma library
    pub proof fn lemma_cong_witness(a: int, b: int) -> (k: int)
        requires cong(a, b),
        ensures a - b == k * (Q as int),
    {
        let q = Q as int;
        lemma_fundamental_div_mod(a - b, q);
        let k = (a - b) / q;
        assert(a - b == k * q) by (nonlinear_arith) requires a - b == q * k + 0;
        k
    }
    pub proof fn lemma_cong_from(a: int, b: int, k: int)
        requires a - b == k * (Q as int),
        ensures cong(a, b),
    {
        lemma_mod_multiples_basic(k, Q as int);
    }
    pub proof fn lemma_cong_refl(a: int) ensures cong(a, a) { }
    pub proof fn lemma_cong_sym(a: int, b: int) requires cong(a, b) ensures cong(b, a)
    {
        let k = lemma_cong_witness(a, b);
        assert(b - a == (-k) * (Q as int)) by (nonlinear_arith) requires a - b == k * (Q as int);
        lemma_cong_from(b, a, -k);
    }
    pub proof fn lemma_cong_trans(a: int, b: int, c: int) requires cong(a, b), cong(b, c) ensures cong(a, c)
    {
        let k1 = lemma_cong_witness(a, b);
        let k2 = lemma_cong_witness(b, c);
        assert(a - c == (k1 + k2) * (Q as int)) by (nonlinear_arith) requires a - b == k1 * (Q as int), b - c == k2 * (Q as int);
        lemma_cong_from(a, c, k1 + k2);
    }
    pub proof fn lemma_cong_add(a: int, b: int, c: int, d: int) requires cong(a, b), cong(c, d) ensures cong(a + c, b + d), cong(a - c, b - d)
    {
        let k1 = lemma_cong_witness(a, b);
        let k2 = lemma_cong_witness(c, d);
        assert((a + c) - (b + d) == (k1 + k2) * (Q as int)) by (nonlinear_arith) requires a - b == k1 * (Q as int), c - d == k2 * (Q as int);
        assert((a - c) - (b - d) == (k1 - k2) * (Q as int)) by (nonlinear_arith) requires a - b == k1 * (Q as int), c - d == k2 * (Q as int);
        lemma_cong_from(a + c, b + d, k1 + k2);
        lemma_cong_from(a - c, b - d, k1 - k2);
    }
    pub proof fn lemma_cong_mul(a: int, b: int, c: int, d: int) requires cong(a, b), cong(c, d) ensures cong(a * c, b * d)
    {
        let k1 = lemma_cong_witness(a, b);
        let k2 = lemma_cong_witness(c, d);
        let q = Q as int;
        assert(a * c - b * d == (k1 * c + b * k2) * q) by (nonlinear_arith) requires a - b == k1 * q, c - d == k2 * q;
        lemma_cong_from(a * c, b * d, k1 * c + b * k2);
    }
    pub proof fn lemma_cong_mod(a: int) ensures cong(a % (Q as int), a), 0 <= a % (Q as int) < Q
    {
        lemma_fundamental_div_mod(a, Q as int);
        let k = a / (Q as int);
        assert(a % (Q as int) - a == (-k) * (Q as int)) by (nonlinear_arith) requires a == (Q as int) * k + a % (Q as int);
        lemma_cong_from(a % (Q as int), a, -k);
    }
    // 2^32 is invertible mod q: 2^32 * 8_265_825 == 1 (mod q)
    pub proof fn lemma_cong_cancel_r32(x: int, y: int)
        requires cong(x * 4_294_967_296, y * 4_294_967_296),
        ensures cong(x, y),
    {
        let q = Q as int;
        let k = lemma_cong_witness(x * 4_294_967_296, y * 4_294_967_296);
        // R * RINV = 1 + c q
        assert(4_294_967_296int * 8_265_825 == 1 + 4_236_238_847 * 8_380_417) by (compute);
        assert(x - y == ((x - y) * 4_294_967_296) * 8_265_825 - (x - y) * 4_236_238_847 * q) by (nonlinear_arith)
            requires 4_294_967_296int * 8_265_825 == 1 + 4_236_238_847 * q;
        assert(x - y == (k * 8_265_825 - (x - y) * 4_236_238_847) * q) by (nonlinear_arith)
            requires x * 4_294_967_296 - y * 4_294_967_296 == k * q,
                     x - y == ((x - y) * 4_294_967_296) * 8_265_825 - (x - y) * 4_236_238_847 * q;
        lemma_cong_from(x, y, k * 8_265_825 - (x - y) * 4_236_238_847);
    }
    // the Montgomery product step used everywhere: t*2^32 == zm*x (mod q), zm == z*2^32 (mod q), x == sx (mod q)  ==>  t == z*sx (mod q)
    pub proof fn lemma_mont_mul(t: int, zm: int, x: int, z: int, sx: int)
        requires cong(t * 4_294_967_296, zm * x), cong(zm, z * 4_294_967_296), cong(x, sx),
        ensures cong(t, z * sx),
    {
        lemma_cong_mul(zm, z * 4_294_967_296, x, sx);
        lemma_cong_trans(t * 4_294_967_296, zm * x, (z * 4_294_967_296) * sx);
        assert((z * 4_294_967_296) * sx == (z * sx) * 4_294_967_296) by (nonlinear_arith);
        lemma_cong_cancel_r32(t, z * sx);
    }

    // ---- FIPS 204 Algorithm 41 (NTT) over mathematical integers (no reduction: only the residue class mod q matters)
    pub open spec fn zeta_brv(m: int) -> int { zpow(brv8(m as u8) as int) }
    pub open spec fn ntt_j_loop(w: Seq<int>, z: int, start: int, len: int, j: int) -> Seq<int>
        decreases start + len - j
    {
        if j >= start + len { w } else {
            let t = z * w[j + len];
            ntt_j_loop(w.update(j + len, w[j] - t).update(j, w[j] + t), z, start, len, j + 1)
        }
    }
    pub open spec fn ntt_start_loop(w: Seq<int>, len: int, m: int, start: int) -> Seq<int>
        decreases 512 - start
    {
        if start >= 256 || start < 0 || len <= 0 || len > 128 { w } else {
            ntt_start_loop(ntt_j_loop(w, zeta_brv(m + 1), start, len, start), len, m + 1, start + 2 * len)
        }
    }
    pub open spec fn ntt_len(k: int) -> int { if k == 0 { 128 } else if k == 1 { 64 } else if k == 2 { 32 } else if k == 3 { 16 } else if k == 4 { 8 } else if k == 5 { 4 } else if k == 6 { 2 } else { 1 } }
    pub open spec fn ntt_m0(k: int) -> int { if k == 0 { 0 } else if k == 1 { 1 } else if k == 2 { 3 } else if k == 3 { 7 } else if k == 4 { 15 } else if k == 5 { 31 } else if k == 6 { 63 } else { 127 } }
    pub open spec fn ntt_layers(w: Seq<int>, k: int) -> Seq<int>
        decreases 8 - k
    {
        if k >= 8 || k < 0 { w } else { ntt_layers(ntt_start_loop(w, ntt_len(k), ntt_m0(k), 0), k + 1) }
    }
    #[verifier::opaque]
    pub open spec fn spec_ntt(w: Seq<int>) -> Seq<int> { ntt_layers(w, 0) }
    pub open spec fn poly_ints(a: [i32; 256]) -> Seq<int> { Seq::new(256, |i: int| a[i] as int) }
    pub open spec fn cong_seq(a: [i32; 256], s: Seq<int>) -> bool { s.len() == 256 && forall|i: int| 0 <= i < 256 ==> cong(#[trigger] a[i] as int, s[i]) }
    pub proof fn lemma_ntt_j_loop_len(w: Seq<int>, z: int, start: int, len: int, j: int)
        requires w.len() == 256, 0 <= j, start + 2 * len <= 256, len >= 0, start >= 0, j >= start,
        ensures ntt_j_loop(w, z, start, len, j).len() == 256,
        decreases start + len - j
    {
        if j < start + len {
            let t = z * w[j + len];
            lemma_ntt_j_loop_len(w.update(j + len, w[j] - t).update(j, w[j] + t), z, start, len, j + 1);
        }
    }
    pub proof fn lemma_cong_seq_refl(a: [i32; 256], s: Seq<int>)
        requires s == poly_ints(a),
        ensures cong_seq(a, s),
    {
        assert forall|i: int| 0 <= i < 256 implies cong(#[trigger] a[i] as int, s[i]) by { }
    }
    // ---- FIPS 204 Algorithm 42 (inverse NTT); the result is reduced to the canonical representative in [0, q)
    pub open spec fn intt_j_loop(w: Seq<int>, z: int, start: int, len: int, j: int) -> Seq<int>
        decreases start + len - j
    {
        if j >= start + len { w } else {
            let t = w[j];
            intt_j_loop(w.update(j, t + w[j + len]).update(j + len, z * (t - w[j + len])), z, start, len, j + 1)
        }
    }
    pub open spec fn intt_start_loop(w: Seq<int>, len: int, m: int, start: int) -> Seq<int>
        decreases 512 - start
    {
        if start >= 256 || start < 0 || len <= 0 || len > 128 { w } else {
            intt_start_loop(intt_j_loop(w, -zeta_brv(m - 1), start, len, start), len, m - 1, start + 2 * len)
        }
    }
    pub open spec fn intt_len(k: int) -> int { if k == 0 { 1 } else if k == 1 { 2 } else if k == 2 { 4 } else if k == 3 { 8 } else if k == 4 { 16 } else if k == 5 { 32 } else if k == 6 { 64 } else { 128 } }
    pub open spec fn intt_m0(k: int) -> int { if k == 0 { 256 } else if k == 1 { 128 } else if k == 2 { 64 } else if k == 3 { 32 } else if k == 4 { 16 } else if k == 5 { 8 } else if k == 6 { 4 } else { 2 } }
    pub open spec fn intt_layers(w: Seq<int>, k: int) -> Seq<int>
        decreases 8 - k
    {
        if k >= 8 || k < 0 { w } else { intt_layers(intt_start_loop(w, intt_len(k), intt_m0(k), 0), k + 1) }
    }
    #[verifier::opaque]
    pub open spec fn spec_invntt(w: Seq<int>) -> Seq<int> {
        let v = intt_layers(w, 0);
        Seq::new(256, |i: int| (8_347_681 * v[i]) % (Q as int))
    }
    pub proof fn lemma_intt_j_loop_len(w: Seq<int>, z: int, start: int, len: int, j: int)
        requires w.len() == 256, 0 <= j, start + 2 * len <= 256, len >= 0, start >= 0, j >= start,
        ensures intt_j_loop(w, z, start, len, j).len() == 256,
        decreases start + len - j
    {
        if j < start + len {
            let t = w[j];
            lemma_intt_j_loop_len(w.update(j, t + w[j + len]).update(j + len, z * (t - w[j + len])), z, start, len, j + 1);
        }
    }
    // a value in [0, q) congruent to b is b mod q
    pub proof fn lemma_cong_canonical(a: int, b: int)
        requires cong(a, b), 0 <= a < Q,
        ensures a == b % (Q as int),
    {
        lemma_cong_mod(b);
        lemma_cong_sym(b % (Q as int), b);
        lemma_cong_trans(a, b, b % (Q as int));
        let k = lemma_cong_witness(a, b % (Q as int));
        let q = Q as int;
        assert(k == 0) by (nonlinear_arith) requires a - b % q == k * q, 0 <= a < q, 0 <= b % q < q, q == 8_380_417;
    }
    // ---- matrix-vector product in the NTT domain (Algorithm 48 with Algorithm 45 coefficient-wise): sum over the first j columns
    pub open spec fn dotp<const K: usize, const L: usize>(a: [[T; L]; K], u: [T; L], i: int, n: int, j: int) -> int
        decreases j
    {
        if j <= 0 { 0 } else { dotp(a, u, i, n, j - 1) + (a[i][j - 1].0[n] as int) * (u[j - 1].0[n] as int) }
    }
    // ---- the inverse transform only depends on the residue classes of its input
    pub open spec fn seq_cong(a: Seq<int>, b: Seq<int>) -> bool {
        a.len() == 256 && b.len() == 256 && forall|i: int| 0 <= i < 256 ==> cong(#[trigger] a[i], b[i])
    }
    pub proof fn lemma_cong_same_mod(x: int, y: int)
        requires cong(x, y),
        ensures x % (Q as int) == y % (Q as int),
    {
        lemma_cong_mod(x);
        lemma_cong_trans(x % (Q as int), x, y);
        lemma_cong_canonical(x % (Q as int), y);
    }
    pub proof fn lemma_intt_j_loop_cong(a: Seq<int>, b: Seq<int>, z: int, start: int, len: int, j: int)
        requires seq_cong(a, b), 0 <= start <= j, start + 2 * len <= 256, len >= 0,
        ensures seq_cong(intt_j_loop(a, z, start, len, j), intt_j_loop(b, z, start, len, j)),
        decreases start + len - j
    {
        if j < start + len {
            let a2 = a.update(j, a[j] + a[j + len]).update(j + len, z * (a[j] - a[j + len]));
            let b2 = b.update(j, b[j] + b[j + len]).update(j + len, z * (b[j] - b[j + len]));
            lemma_cong_add(a[j], b[j], a[j + len], b[j + len]);
            lemma_cong_refl(z);
            lemma_cong_mul(z, z, a[j] - a[j + len], b[j] - b[j + len]);
            assert forall|i: int| 0 <= i < 256 implies cong(#[trigger] a2[i], b2[i]) by {
                if i == j { } else if i == j + len { } else { assert(a2[i] == a[i] && b2[i] == b[i]); }
            }
            lemma_intt_j_loop_cong(a2, b2, z, start, len, j + 1);
        }
    }
    pub proof fn lemma_intt_start_loop_cong(a: Seq<int>, b: Seq<int>, len: int, m: int, start: int)
        requires seq_cong(a, b), start >= 0, len >= 1, len <= 128, (256 - start) % (2 * len) == 0 || start >= 256,
        ensures seq_cong(intt_start_loop(a, len, m, start), intt_start_loop(b, len, m, start)),
        decreases 512 - start
    {
        if start < 256 {
            let z = -zeta_brv(m - 1);
            assert(start + 2 * len <= 256) by {
                lemma_fundamental_div_mod(256 - start, 2 * len);
                let kq = (256 - start) / (2 * len);
                assert(256 - start == (2 * len) * kq);
                assert(kq >= 1) by (nonlinear_arith) requires 256 - start == (2 * len) * kq, 256 - start > 0, len >= 1;
                assert((2 * len) * kq >= 2 * len) by (nonlinear_arith) requires kq >= 1, len >= 1;
            }
            lemma_intt_j_loop_cong(a, b, z, start, len, start);
            lemma_intt_j_loop_len(a, z, start, len, start);
            lemma_intt_j_loop_len(b, z, start, len, start);
            assert((256 - (start + 2 * len)) % (2 * len) == 0 || start + 2 * len >= 256) by {
                lemma_mod_sub_multiples_vanish(256 - start, 2 * len);
            }
            lemma_intt_start_loop_cong(intt_j_loop(a, z, start, len, start), intt_j_loop(b, z, start, len, start), len, m - 1, start + 2 * len);
        }
    }
    pub proof fn lemma_intt_layers_cong(a: Seq<int>, b: Seq<int>, k: int)
        requires seq_cong(a, b), 0 <= k <= 8,
        ensures seq_cong(intt_layers(a, k), intt_layers(b, k)),
        decreases 8 - k
    {
        if k < 8 {
            let len = intt_len(k);
            if k == 0 { assert(len == 1); assert(256int % 2 == 0); } if k == 1 { assert(len == 2); assert(256int % 4 == 0); } if k == 2 { assert(len == 4); assert(256int % 8 == 0); } if k == 3 { assert(len == 8); assert(256int % 16 == 0); } if k == 4 { assert(len == 16); assert(256int % 32 == 0); } if k == 5 { assert(len == 32); assert(256int % 64 == 0); } if k == 6 { assert(len == 64); assert(256int % 128 == 0); } if k == 7 { assert(len == 128); assert(256int % 256 == 0); }
            assert((256 - 0) % (2 * len) == 0);
            lemma_intt_start_loop_cong(a, b, len, intt_m0(k), 0);
            lemma_intt_layers_cong(intt_start_loop(a, len, intt_m0(k), 0), intt_start_loop(b, len, intt_m0(k), 0), k + 1);
        }
    }
    pub proof fn lemma_invntt_cong(a: Seq<int>, b: Seq<int>)
        requires seq_cong(a, b),
        ensures spec_invntt(a) == spec_invntt(b),
    {
        reveal(spec_invntt);
        lemma_intt_layers_cong(a, b, 0);
        let va = intt_layers(a, 0); let vb = intt_layers(b, 0);
        assert forall|i: int| 0 <= i < 256 implies (8_347_681 * va[i]) % (Q as int) == (8_347_681 * vb[i]) % (Q as int) by {
            lemma_cong_refl(8_347_681);
            lemma_cong_mul(8_347_681, 8_347_681, va[i], vb[i]);
            lemma_cong_same_mod(8_347_681 * va[i], 8_347_681 * vb[i]);
        }
        assert(spec_invntt(a) =~= spec_invntt(b));
    }
    pub open spec fn poly_is(r: [i32; 256], s: Seq<int>) -> bool { forall|n: int| 0 <= n < 256 ==> #[trigger] r[n] as int == s[n] }
    pub proof fn lemma_invntt_cong_all(b: Seq<int>)
        ensures forall|a: Seq<int>| seq_cong(a, b) ==> #[trigger] spec_invntt(a) == spec_invntt(b),
    {
        assert forall|a: Seq<int>| seq_cong(a, b) implies #[trigger] spec_invntt(a) == spec_invntt(b) by { lemma_invntt_cong(a, b); }
    }
