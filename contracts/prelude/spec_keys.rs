    // ---- A-rng: the caller's generator. Only the fallible interface may be used (the others `requires false`).
    pub struct RngError;
    pub trait CryptoRngCore {
        spec fn draws(&self) -> nat;          // ghost: number of requests made so far
        spec fn last_ok(&self) -> bool;       // ghost: did the most recent request succeed
        spec fn last(&self) -> Seq<u8>;       // ghost: bytes written by the most recent successful request
        fn try_fill_bytes<const N: usize>(&mut self, dest: &mut [u8; N]) -> (r: Result<(), RngError>)
            ensures
                final(self).draws() == old(self).draws() + 1,
                (r is Ok) == final(self).last_ok(),
                r is Ok ==> final(dest)@ == final(self).last();
        fn fill_bytes<const N: usize>(&mut self, dest: &mut [u8; N])
            requires false;
        fn next_u32(&mut self) -> u32
            requires false;
        fn next_u64(&mut self) -> u64
            requires false;
    }
    // OS generator (default-rng feature): an opaque implementor (freshness is outside the model)
    pub struct OsRng;
    impl CryptoRngCore for OsRng {
        uninterp spec fn draws(&self) -> nat;
        uninterp spec fn last_ok(&self) -> bool;
        uninterp spec fn last(&self) -> Seq<u8>;
        #[verifier::external_body]
        fn try_fill_bytes<const N: usize>(&mut self, dest: &mut [u8; N]) -> (r: Result<(), RngError>) { unimplemented!() }
        #[verifier::external_body]
        fn fill_bytes<const N: usize>(&mut self, dest: &mut [u8; N]) { unimplemented!() }
        #[verifier::external_body]
        fn next_u32(&mut self) -> u32 { unimplemented!() }
        #[verifier::external_body]
        fn next_u64(&mut self) -> u64 { unimplemented!() }
    }
    // ---- key structs: representation invariant (what every constructor establishes and every method may rely on)
    pub open spec fn tvec_mont_ok<const N: usize>(v: [T; N]) -> bool {
        forall|i: int, n: int| 0 <= i < N && 0 <= n < 256 ==> -256 < #[trigger] v[i].0[n] < Q + 256
    }
    pub open spec fn wf_sk<const K: usize, const L: usize>(sk: PrivateKey<K, L>) -> bool {
        tvec_mont_ok(sk.s_1_hat_mont) && tvec_mont_ok(sk.s_2_hat_mont) && tvec_mont_ok(sk.t_0_hat_mont)
    }
    pub open spec fn wf_pk<const K: usize, const L: usize>(pk: PublicKey<K, L>) -> bool {
        tvec_mont_ok(pk.t1_d2_hat_mont)
    }
    // the three FIPS 204 parameter sets (Table 1) as one predicate over the run-time / const-generic parameters
    pub open spec fn params_ok(k: int, l: int, eta: int, beta: int, gamma1: int, gamma2: int, omega: int, tau: int, lam4: int,
                               pk_len: int, sk_len: int, sig_len: int, w1_len: int) -> bool {
        ||| (k == 4 && l == 4 && eta == 2 && beta == 78 && gamma1 == 131_072 && gamma2 == 95_232 && omega == 80 && tau == 39 && lam4 == 32
             && pk_len == 1312 && sk_len == 2560 && sig_len == 2420 && w1_len == 768)
        ||| (k == 6 && l == 5 && eta == 4 && beta == 196 && gamma1 == 524_288 && gamma2 == 261_888 && omega == 55 && tau == 49 && lam4 == 48
             && pk_len == 1952 && sk_len == 4032 && sig_len == 3309 && w1_len == 768)
        ||| (k == 8 && l == 7 && eta == 2 && beta == 120 && gamma1 == 524_288 && gamma2 == 261_888 && omega == 75 && tau == 60 && lam4 == 64
             && pk_len == 2592 && sk_len == 4896 && sig_len == 4627 && w1_len == 1024)
    }
    pub open spec fn kl_ok(k: int, l: int) -> bool { (k == 4 && l == 4) || (k == 6 && l == 5) || (k == 8 && l == 7) }
    // ---- C04: what key generation is proved to return for seed xi (strengthened as Tier 2 progresses)
    pub open spec fn keygen_seed_input(xi: Seq<u8>, k: int, l: int) -> Seq<u8> { xi + seq![k as u8] + seq![l as u8] }
    pub open spec fn keygen_post<const K: usize, const L: usize>(eta: int, xi: Seq<u8>, pk: PublicKey<K, L>, sk: PrivateKey<K, L>) -> bool {
        let st = shake256(keygen_seed_input(xi, K as int, L as int));
        &&& pk.rho@ == stream_take(st, 0, 32)
        &&& sk.rho@ == pk.rho@
        &&& sk.cap_k@ == stream_take(st, 96, 32)
        &&& sk.tr@ == pk.tr@
    }
    // ---- FIPS 204 Algorithms 2-5, 7, 8: the formatted message M' and the message representative mu
    pub open spec fn mprime(m: Seq<u8>, ctx: Seq<u8>, oid: Seq<u8>, phm: Seq<u8>, nist: bool) -> Seq<u8> {
        if nist { m } else if oid.len() == 0 { seq![0u8] + seq![ctx.len() as u8] + ctx + m } else { seq![1u8] + seq![ctx.len() as u8] + ctx + oid + phm }
    }
    pub open spec fn spec_mu(tr: Seq<u8>, m: Seq<u8>, ctx: Seq<u8>, oid: Seq<u8>, phm: Seq<u8>, nist: bool) -> Seq<u8> {
        stream_take(shake256(tr + mprime(m, ctx, oid, phm, nist)), 0, 64)
    }
    pub open spec fn vparams_ok(k: int, l: int, beta: int, gamma1: int, gamma2: int, omega: int, tau: int, lam4: int, sig_len: int, w1_len: int) -> bool {
        ||| (k == 4 && l == 4 && beta == 78 && gamma1 == 131_072 && gamma2 == 95_232 && omega == 80 && tau == 39 && lam4 == 32 && sig_len == 2420 && w1_len == 768)
        ||| (k == 6 && l == 5 && beta == 196 && gamma1 == 524_288 && gamma2 == 261_888 && omega == 55 && tau == 49 && lam4 == 48 && sig_len == 3309 && w1_len == 768)
        ||| (k == 8 && l == 7 && beta == 120 && gamma1 == 524_288 && gamma2 == 261_888 && omega == 75 && tau == 60 && lam4 == 64 && sig_len == 4627 && w1_len == 1024)
    }
    // coefficient j of polynomial i of the response vector z encoded in a signature (Algorithm 27)
    pub open spec fn sig_z(sig: Seq<u8>, gamma1: int, lam4: int, i: int, j: int) -> int {
        spec_unpack_coef(sig_z_bytes(sig, gamma1, lam4, i), gamma1 - 1, gamma1, j)
    }
    pub open spec fn sig_z_norm_ok(sig: Seq<u8>, gamma1: int, beta: int, lam4: int, l: int) -> bool {
        forall|i: int, j: int| 0 <= i < l && 0 <= j < 256 ==> -(gamma1 - beta) < #[trigger] sig_z(sig, gamma1, lam4, i, j) < gamma1 - beta
    }
    // A-kappa (DESIGN section 8): the signing rejection loop is assumed to exit before the 16-bit mask counter would overflow
    // (FIPS 204 Appendix C: about 4-5 iterations expected; 9362+ consecutive rejections needed). Named, counted, never silent.
    #[verifier::external_body]
    pub proof fn axiom_a_kappa(kappa: u16, l: usize)
        ensures kappa as int + l as int <= 65_535
    { }
