    // ---- A-hash: SHAKE / SHA-2 are uninterpreted total functions of the absorbed byte string; an XOF reader yields
    // consecutive bytes of the (infinite) output stream. Nothing else is assumed about them.
    pub uninterp spec fn shake256(input: Seq<u8>) -> spec_fn(int) -> u8;
    pub uninterp spec fn shake128(input: Seq<u8>) -> spec_fn(int) -> u8;
    pub uninterp spec fn sha256(input: Seq<u8>) -> Seq<u8>;
    pub uninterp spec fn sha512(input: Seq<u8>) -> Seq<u8>;
    pub open spec fn flat(v: Seq<&[u8]>) -> Seq<u8>
        decreases v.len()
    {
        if v.len() == 0 { Seq::<u8>::empty() } else { flat(v.drop_last()) + v.last()@ }
    }
    pub open spec fn stream_take(s: spec_fn(int) -> u8, from: int, n: int) -> Seq<u8> { Seq::new(n as nat, |i: int| s(from + i)) }
    // R6: `-> impl XofReader` is mirrored by this opaque reader type (trusted)
    #[verifier::external_body]
    pub struct Xof { _inner: [u8; 0] }
    impl Xof {
        pub uninterp spec fn stream(&self) -> spec_fn(int) -> u8;
        pub uninterp spec fn pos(&self) -> int;
        #[verifier::external_body]
        pub fn read<const N: usize>(&mut self, buf: &mut [u8; N])
            ensures
                final(self).stream() == old(self).stream(),
                final(self).pos() == old(self).pos() + N,
                final(buf)@ == stream_take(old(self).stream(), old(self).pos(), N as int),
        { unimplemented!() }
    }
    // R1: n.to_le_bytes() for u16
    #[verifier::external_body]
    pub fn le_bytes2(n: u16) -> (r: [u8; 2])
        ensures r[0] as int == n as int % 256, r[1] as int == n as int / 256,
    { n.to_le_bytes() }
    // FIPS 204 Algorithm 4/5: DER OIDs and digests of the three supported pre-hash functions
    pub open spec fn spec_oid(ph: Ph) -> Seq<u8> {
        match ph {
            Ph::SHA256 => seq![0x06u8, 0x09, 0x60, 0x86, 0x48, 0x01, 0x65, 0x03, 0x04, 0x02, 0x01],
            Ph::SHA512 => seq![0x06u8, 0x09, 0x60, 0x86, 0x48, 0x01, 0x65, 0x03, 0x04, 0x02, 0x03],
            Ph::SHAKE128 => seq![0x06u8, 0x09, 0x60, 0x86, 0x48, 0x01, 0x65, 0x03, 0x04, 0x02, 0x0B],
        }
    }
    pub open spec fn spec_ph_len(ph: Ph) -> int { match ph { Ph::SHA256 => 32, Ph::SHA512 => 64, Ph::SHAKE128 => 32 } }
    pub open spec fn spec_prehash(ph: Ph, m: Seq<u8>) -> Seq<u8> {
        match ph {
            Ph::SHA256 => sha256(m),
            Ph::SHA512 => sha512(m),
            Ph::SHAKE128 => stream_take(shake128(m), 0, 32),
        }
    }
    // ---- A-hash: mirrors of the sha2 / sha3 hasher objects used by hash_message (opaque; absorbed input is ghost state)
    #[verifier::external_body]
    pub struct Sha256 { _p: [u8; 0] }
    #[verifier::external_body]
    pub struct Sha512 { _p: [u8; 0] }
    #[verifier::external_body]
    pub struct Shake128 { _p: [u8; 0] }
    pub trait Digest: Sized {
        spec fn absorbed(&self) -> Seq<u8>;
        fn update(&mut self, data: &[u8])
            ensures final(self).absorbed() == old(self).absorbed() + data@;
    }
    impl Sha256 {
        #[verifier::external_body]
        pub fn new() -> (h: Sha256) ensures h.absorbed() == Seq::<u8>::empty() { unimplemented!() }
        #[verifier::external_body]
        pub fn finalize(self) -> (d: [u8; 32]) ensures d@ == sha256(self.absorbed()) { unimplemented!() }
    }
    impl Digest for Sha256 {
        uninterp spec fn absorbed(&self) -> Seq<u8>;
        #[verifier::external_body]
        fn update(&mut self, data: &[u8]) { unimplemented!() }
    }
    impl Sha512 {
        #[verifier::external_body]
        pub fn new() -> (h: Sha512) ensures h.absorbed() == Seq::<u8>::empty() { unimplemented!() }
        #[verifier::external_body]
        pub fn finalize(self) -> (d: [u8; 64]) ensures d@ == sha512(self.absorbed()) { unimplemented!() }
    }
    impl Digest for Sha512 {
        uninterp spec fn absorbed(&self) -> Seq<u8>;
        #[verifier::external_body]
        fn update(&mut self, data: &[u8]) { unimplemented!() }
    }
    impl Shake128 {
        pub uninterp spec fn absorbed(&self) -> Seq<u8>;
        #[verifier::external_body]
        pub fn default() -> (h: Shake128) ensures h.absorbed() == Seq::<u8>::empty() { unimplemented!() }
        #[verifier::external_body]
        pub fn update(&mut self, data: &[u8]) ensures final(self).absorbed() == old(self).absorbed() + data@ { unimplemented!() }
        #[verifier::external_body]
        pub fn finalize_xof(self) -> (x: XofS) ensures x.stream() == shake128(self.absorbed()), x.pos() == 0 { unimplemented!() }
    }
    // reader whose `read` takes a slice (hash_message reads into &mut phm[0..32])
    #[verifier::external_body]
    pub struct XofS { _inner: [u8; 0] }
    impl XofS {
        pub uninterp spec fn stream(&self) -> spec_fn(int) -> u8;
        pub uninterp spec fn pos(&self) -> int;
        #[verifier::external_body]
        pub fn read(&mut self, buf: &mut [u8])
            ensures
                final(self).stream() == old(self).stream(),
                final(self).pos() == old(self).pos() + old(buf).len(),
                final(buf)@ == stream_take(old(self).stream(), old(self).pos(), old(buf).len() as int),
        { unimplemented!() }
    }
    // ---- FIPS 204 Algorithm 30 (RejNTTPoly) as a relation between the XOF stream and the sampled polynomial:
    // sample k is bytes [3k, 3k+3); it is accepted iff CoeffFromThreeBytes < q; coefficient j is the j-th accepted sample.
    pub open spec fn rej3_val(s: spec_fn(int) -> u8, k: int) -> int { spec_coeff3(s(3 * k) as int, s(3 * k + 1) as int, s(3 * k + 2) as int) }
    pub open spec fn rej3_acc(s: spec_fn(int) -> u8, k: int) -> bool { rej3_val(s, k) < Q }
    pub open spec fn rej3_cnt(s: spec_fn(int) -> u8, k: int) -> int
        decreases k
    {
        if k <= 0 { 0 } else { rej3_cnt(s, k - 1) + (if rej3_acc(s, k - 1) { 1int } else { 0int }) }
    }
    pub open spec fn rej_ntt_at(s: spec_fn(int) -> u8, a: T, j: int, k: int) -> bool {
        0 <= k && rej3_acc(s, k) && rej3_cnt(s, k) == j && a.0[j] == rej3_val(s, k)
    }
    pub open spec fn rej_ntt_rel(s: spec_fn(int) -> u8, a: T) -> bool {
        exists|wit: Seq<int>| wit.len() == 256 && forall|j: int| 0 <= j < 256 ==> #[trigger] rej_ntt_at(s, a, j, wit[j])
    }
    // ---- FIPS 204 Algorithm 31 (RejBoundedPoly) as a relation between the XOF stream and the sampled polynomial: sample k is half-byte k
    // (low half of byte k/2 first); it is accepted iff CoeffFromHalfByte is defined; coefficient j is the j-th accepted sample.
    pub open spec fn half_nib(s: spec_fn(int) -> u8, k: int) -> int { if k % 2 == 0 { (s(k / 2) as int) % 16 } else { (s(k / 2) as int) / 16 } }
    pub open spec fn half_acc(eta: int, b: int) -> bool { (eta == 2 && b < 15) || (eta == 4 && b < 9) }
    pub open spec fn half_val(eta: int, b: int) -> int { if eta == 2 { 2 - b % 5 } else { 4 - b } }
    pub open spec fn rejh_cnt(s: spec_fn(int) -> u8, eta: int, k: int) -> int
        decreases k
    {
        if k <= 0 { 0 } else { rejh_cnt(s, eta, k - 1) + (if half_acc(eta, half_nib(s, k - 1)) { 1int } else { 0int }) }
    }
    pub open spec fn rej_bnd_at(s: spec_fn(int) -> u8, eta: int, a: R, j: int, k: int) -> bool {
        0 <= k && half_acc(eta, half_nib(s, k)) && rejh_cnt(s, eta, k) == j && a.0[j] == half_val(eta, half_nib(s, k))
    }
    pub open spec fn rej_bnd_rel(s: spec_fn(int) -> u8, eta: int, a: R) -> bool {
        exists|wit: Seq<int>| wit.len() == 256 && forall|j: int| 0 <= j < 256 ==> #[trigger] rej_bnd_at(s, eta, a, j, wit[j])
    }
    // ---- FIPS 204 Algorithm 33 (ExpandS): s1[r] = RejBoundedPoly(rho' || IntegerToBytes(r, 2)), s2[r] = RejBoundedPoly(rho' || IntegerToBytes(r + l, 2))
    pub open spec fn expand_s_seed(rho: Seq<u8>, r: int) -> Seq<u8> { rho + seq![r as u8] + seq![0u8] }
    pub open spec fn expand_s_rel<const K: usize, const L: usize>(rho: Seq<u8>, eta: int, s1: [R; L], s2: [R; K]) -> bool {
        &&& forall|r: int| 0 <= r < L ==> rej_bnd_rel(shake256(#[trigger] expand_s_seed(rho, r)), eta, s1[r])
        &&& forall|r: int| 0 <= r < K ==> rej_bnd_rel(shake256(#[trigger] expand_s_seed(rho, r + L)), eta, s2[r])
    }
    // ---- FIPS 204 Algorithm 34 (ExpandMask): polynomial number r of attempt kappa is BitUnpack(H(rho'' || IntegerToBytes(kappa + r, 2), 32c))
    pub open spec fn mask_seed(rho: Seq<u8>, n: int) -> Seq<u8> { rho + seq![(n % 256) as u8, (n / 256) as u8] }
    #[verifier::opaque]
    pub open spec fn spec_mask_coef(rho: Seq<u8>, n: int, gamma1: int, j: int) -> int {
        let c = 1 + spec_bitlen(gamma1 - 1);
        spec_unpack_coef(stream_take(shake256(mask_seed(rho, n)), 0, 32 * c), gamma1 - 1, gamma1, j)
    }
    // ---- SampleInBall (Algorithm 29): number of non-zero coefficients among the first n
    pub open spec fn nz_count(c: Seq<i32>, n: int) -> int
        decreases n
    {
        if n <= 0 { 0 } else { nz_count(c, n - 1) + (if c[n - 1] != 0 { 1int } else { 0int }) }
    }
    pub proof fn lemma_nz_update(c: Seq<i32>, p: int, v: i32, n: int)
        requires 0 <= p < c.len(), 0 <= n <= c.len(),
        ensures nz_count(c.update(p, v), n) == nz_count(c, n)
            + (if p < n { (if v != 0 { 1int } else { 0int }) - (if c[p] != 0 { 1int } else { 0int }) } else { 0int }),
        decreases n
    {
        if n > 0 {
            lemma_nz_update(c, p, v, n - 1);
            assert(c.update(p, v)[n - 1] == (if p == n - 1 { v } else { c[n - 1] }));
        }
    }
    pub proof fn lemma_nz_zero_tail(c: Seq<i32>, from: int, n: int)
        requires 0 <= from <= n <= c.len(), forall|t: int| from <= t < n ==> c[t] == 0,
        ensures nz_count(c, n) == nz_count(c, from),
        decreases n
    {
        if n > from { lemma_nz_zero_tail(c, from, n - 1); }
    }
    // ---- FIPS 204 Algorithm 29 (SampleInBall) as a relation: wit[t] is the stream position of the byte accepted in step t
    // (i = 256 - tau + t); every byte skipped before it was > i; the polynomial is the fold of the swaps.
    pub open spec fn sib_sign(s: spec_fn(int) -> u8, t: int) -> i32 {
        (1 - 2 * (((s(t / 8) as int) / p2(t % 8)) % 2)) as i32
    }
    pub open spec fn sib_fold(s: spec_fn(int) -> u8, wit: Seq<int>, tau: int, t: int) -> Seq<i32>
        decreases t
    {
        if t <= 0 { Seq::new(256, |n: int| 0i32) } else {
            let c = sib_fold(s, wit, tau, t - 1);
            let i = 256 - tau + (t - 1);
            let j = s(wit[t - 1]) as int;
            c.update(i, c[j]).update(j, sib_sign(s, t - 1))
        }
    }
    pub open spec fn sib_step_ok(s: spec_fn(int) -> u8, wit: Seq<int>, tau: int, t: int) -> bool {
        let i = 256 - tau + t;
        let lo = if t == 0 { 8 } else { wit[t - 1] + 1 };
        lo <= wit[t] && (s(wit[t]) as int) <= i && forall|p: int| lo <= p < wit[t] ==> (#[trigger] s(p) as int) > i
    }
    pub open spec fn sib_rel(tau: int, s: spec_fn(int) -> u8, c: R) -> bool {
        exists|wit: Seq<int>| wit.len() == tau && (forall|t: int| 0 <= t < tau ==> #[trigger] sib_step_ok(s, wit, tau, t))
            && c.0@ == sib_fold(s, wit, tau, tau)
    }
    pub proof fn lemma_sib_fold_prefix(s: spec_fn(int) -> u8, w1: Seq<int>, w2: Seq<int>, tau: int, t: int)
        requires 0 <= t <= w1.len(), w2.len() >= w1.len(), forall|k: int| 0 <= k < t ==> w1[k] == w2[k],
        ensures sib_fold(s, w1, tau, t) == sib_fold(s, w2, tau, t),
        decreases t
    {
        if t > 0 { lemma_sib_fold_prefix(s, w1, w2, tau, t - 1); }
    }
    pub proof fn lemma_u8_shr_bit(b: u8, sh: u8)
        requires sh < 8,
        ensures ((b >> sh) & 1u8) as int == ((b as int) / p2(sh as int)) % 2,
    {
        lemma2_to64();
        if sh == 0 { assert(p2(0) == 1); let r = (b >> 0u8) & 1u8; assert(r == (b / 1u8) % 2u8) by (bit_vector) requires r == (b >> 0u8) & 1u8; assert((b / 1u8) as int == (b as int) / 1); }
        if sh == 1 { assert(p2(1) == 2); let r = (b >> 1u8) & 1u8; assert(r == (b / 2u8) % 2u8) by (bit_vector) requires r == (b >> 1u8) & 1u8; assert((b / 2u8) as int == (b as int) / 2); }
        if sh == 2 { assert(p2(2) == 4); let r = (b >> 2u8) & 1u8; assert(r == (b / 4u8) % 2u8) by (bit_vector) requires r == (b >> 2u8) & 1u8; assert((b / 4u8) as int == (b as int) / 4); }
        if sh == 3 { assert(p2(3) == 8); let r = (b >> 3u8) & 1u8; assert(r == (b / 8u8) % 2u8) by (bit_vector) requires r == (b >> 3u8) & 1u8; assert((b / 8u8) as int == (b as int) / 8); }
        if sh == 4 { assert(p2(4) == 16); let r = (b >> 4u8) & 1u8; assert(r == (b / 16u8) % 2u8) by (bit_vector) requires r == (b >> 4u8) & 1u8; assert((b / 16u8) as int == (b as int) / 16); }
        if sh == 5 { assert(p2(5) == 32); let r = (b >> 5u8) & 1u8; assert(r == (b / 32u8) % 2u8) by (bit_vector) requires r == (b >> 5u8) & 1u8; assert((b / 32u8) as int == (b as int) / 32); }
        if sh == 6 { assert(p2(6) == 64); let r = (b >> 6u8) & 1u8; assert(r == (b / 64u8) % 2u8) by (bit_vector) requires r == (b >> 6u8) & 1u8; assert((b / 64u8) as int == (b as int) / 64); }
        if sh == 7 { assert(p2(7) == 128); let r = (b >> 7u8) & 1u8; assert(r == (b / 128u8) % 2u8) by (bit_vector) requires r == (b >> 7u8) & 1u8; assert((b / 128u8) as int == (b as int) / 128); }
    }
    // ---- FIPS 204 Algorithm 32 (ExpandA): A[r][s] = RejNTTPoly(rho || IntegerToBytes(s,1) || IntegerToBytes(r,1))
    pub open spec fn expand_a_seed(rho: Seq<u8>, s: int, r: int) -> Seq<u8> { rho + seq![s as u8] + seq![r as u8] }
    pub open spec fn expand_a_row_ok<const L: usize>(rho: Seq<u8>, r: int, row: [T; L]) -> bool {
        forall|s: int| 0 <= s < L ==> rej_ntt_rel(shake128(#[trigger] expand_a_seed(rho, s, r)), row[s])
    }
    pub open spec fn expand_a_rel<const K: usize, const L: usize>(rho: Seq<u8>, a: [[T; L]; K]) -> bool {
        forall|r: int| 0 <= r < K ==> expand_a_row_ok(rho, r, #[trigger] a[r])
    }
