    // ---- M-ring: FIPS 204 Algorithm 41 evaluates the polynomial at the 256 roots of X^256 + 1, hence NTT-domain products are products in
    // Z_q[X]/(X^256+1).  Layer k of the transform maps "a mod (X^N - c)" (block constant c, N = 256 >> k) to its two halves
    // "a mod (X^(N/2) - z)" and "a mod (X^(N/2) + z)" where z^2 == c is the zeta of the block.
    pub open spec fn ipow(r: int, j: int) -> int decreases j { if j <= 0 { 1 } else { r * ipow(r, j - 1) } }
    pub proof fn lemma_ipow_add(r: int, a: int, b: int)
        requires a >= 0, b >= 0,
        ensures ipow(r, a + b) == ipow(r, a) * ipow(r, b),
        decreases b
    {
        if b == 0 { assert(ipow(r, a) * 1 == ipow(r, a)); } else {
            lemma_ipow_add(r, a, b - 1);
            assert(ipow(r, a + b) == r * ipow(r, a + b - 1));
            assert(r * (ipow(r, a) * ipow(r, b - 1)) == ipow(r, a) * (r * ipow(r, b - 1))) by (nonlinear_arith);
        }
    }
    pub proof fn lemma_ipow_cong(r: int, s: int, j: int)
        requires cong(r, s), j >= 0,
        ensures cong(ipow(r, j), ipow(s, j)),
        decreases j
    {
        if j == 0 { lemma_cong_refl(1); } else {
            lemma_ipow_cong(r, s, j - 1);
            lemma_cong_mul(r, s, ipow(r, j - 1), ipow(s, j - 1));
        }
    }
    // (z^2)^u == z^(2u), up to congruence of the base: z*z == c (mod q)  ==>  z^(2u) == c^u (mod q)
    pub proof fn lemma_ipow_sq(z: int, c: int, u: int)
        requires cong(z * z, c), u >= 0,
        ensures cong(ipow(z, 2 * u), ipow(c, u)),
        decreases u
    {
        if u == 0 { lemma_cong_refl(1); } else {
            lemma_ipow_sq(z, c, u - 1);
            assert(ipow(z, 2 * u) == z * ipow(z, 2 * u - 1));
            assert(ipow(z, 2 * u - 1) == z * ipow(z, 2 * u - 2));
            assert(z * (z * ipow(z, 2 * u - 2)) == (z * z) * ipow(z, 2 * (u - 1))) by (nonlinear_arith);
            lemma_cong_mul(z * z, c, ipow(z, 2 * (u - 1)), ipow(c, u - 1));
        }
    }
    // block constant of the block whose zeta index is m (1 <= m < 512): X^N - cc(m)
    pub open spec fn cc(m: int) -> int { if m <= 1 { -1 } else if m % 2 == 0 { zeta_brv(m / 2) } else { -zeta_brv(m / 2) } }
    pub open spec fn brv_double_ok(h: int) -> bool {
        2 * (brv8(h as u8) as int) == (if h == 1 { 256 } else if h % 2 == 0 { brv8((h / 2) as u8) as int } else { 256 + brv8((h / 2) as u8) as int })
    }
    // generated: 2*BitRev8(h) is BitRev8(h/2) (h even), 256 + BitRev8(h/2) (h odd), 256 (h = 1); each line evaluated by the interpreter
    pub proof fn lemma_brv_double(h: int)
        requires 1 <= h < 256,
        ensures brv_double_ok(h),
    {
        if h == 1 { assert(brv_double_ok(1)) by (compute_only); }
        else if h == 2 { assert(brv_double_ok(2)) by (compute_only); }
        else if h == 3 { assert(brv_double_ok(3)) by (compute_only); }
        else if h == 4 { assert(brv_double_ok(4)) by (compute_only); }
        else if h == 5 { assert(brv_double_ok(5)) by (compute_only); }
        else if h == 6 { assert(brv_double_ok(6)) by (compute_only); }
        else if h == 7 { assert(brv_double_ok(7)) by (compute_only); }
        else if h == 8 { assert(brv_double_ok(8)) by (compute_only); }
        else if h == 9 { assert(brv_double_ok(9)) by (compute_only); }
        else if h == 10 { assert(brv_double_ok(10)) by (compute_only); }
        else if h == 11 { assert(brv_double_ok(11)) by (compute_only); }
        else if h == 12 { assert(brv_double_ok(12)) by (compute_only); }
        else if h == 13 { assert(brv_double_ok(13)) by (compute_only); }
        else if h == 14 { assert(brv_double_ok(14)) by (compute_only); }
        else if h == 15 { assert(brv_double_ok(15)) by (compute_only); }
        else if h == 16 { assert(brv_double_ok(16)) by (compute_only); }
        else if h == 17 { assert(brv_double_ok(17)) by (compute_only); }
        else if h == 18 { assert(brv_double_ok(18)) by (compute_only); }
        else if h == 19 { assert(brv_double_ok(19)) by (compute_only); }
        else if h == 20 { assert(brv_double_ok(20)) by (compute_only); }
        else if h == 21 { assert(brv_double_ok(21)) by (compute_only); }
        else if h == 22 { assert(brv_double_ok(22)) by (compute_only); }
        else if h == 23 { assert(brv_double_ok(23)) by (compute_only); }
        else if h == 24 { assert(brv_double_ok(24)) by (compute_only); }
        else if h == 25 { assert(brv_double_ok(25)) by (compute_only); }
        else if h == 26 { assert(brv_double_ok(26)) by (compute_only); }
        else if h == 27 { assert(brv_double_ok(27)) by (compute_only); }
        else if h == 28 { assert(brv_double_ok(28)) by (compute_only); }
        else if h == 29 { assert(brv_double_ok(29)) by (compute_only); }
        else if h == 30 { assert(brv_double_ok(30)) by (compute_only); }
        else if h == 31 { assert(brv_double_ok(31)) by (compute_only); }
        else if h == 32 { assert(brv_double_ok(32)) by (compute_only); }
        else if h == 33 { assert(brv_double_ok(33)) by (compute_only); }
        else if h == 34 { assert(brv_double_ok(34)) by (compute_only); }
        else if h == 35 { assert(brv_double_ok(35)) by (compute_only); }
        else if h == 36 { assert(brv_double_ok(36)) by (compute_only); }
        else if h == 37 { assert(brv_double_ok(37)) by (compute_only); }
        else if h == 38 { assert(brv_double_ok(38)) by (compute_only); }
        else if h == 39 { assert(brv_double_ok(39)) by (compute_only); }
        else if h == 40 { assert(brv_double_ok(40)) by (compute_only); }
        else if h == 41 { assert(brv_double_ok(41)) by (compute_only); }
        else if h == 42 { assert(brv_double_ok(42)) by (compute_only); }
        else if h == 43 { assert(brv_double_ok(43)) by (compute_only); }
        else if h == 44 { assert(brv_double_ok(44)) by (compute_only); }
        else if h == 45 { assert(brv_double_ok(45)) by (compute_only); }
        else if h == 46 { assert(brv_double_ok(46)) by (compute_only); }
        else if h == 47 { assert(brv_double_ok(47)) by (compute_only); }
        else if h == 48 { assert(brv_double_ok(48)) by (compute_only); }
        else if h == 49 { assert(brv_double_ok(49)) by (compute_only); }
        else if h == 50 { assert(brv_double_ok(50)) by (compute_only); }
        else if h == 51 { assert(brv_double_ok(51)) by (compute_only); }
        else if h == 52 { assert(brv_double_ok(52)) by (compute_only); }
        else if h == 53 { assert(brv_double_ok(53)) by (compute_only); }
        else if h == 54 { assert(brv_double_ok(54)) by (compute_only); }
        else if h == 55 { assert(brv_double_ok(55)) by (compute_only); }
        else if h == 56 { assert(brv_double_ok(56)) by (compute_only); }
        else if h == 57 { assert(brv_double_ok(57)) by (compute_only); }
        else if h == 58 { assert(brv_double_ok(58)) by (compute_only); }
        else if h == 59 { assert(brv_double_ok(59)) by (compute_only); }
        else if h == 60 { assert(brv_double_ok(60)) by (compute_only); }
        else if h == 61 { assert(brv_double_ok(61)) by (compute_only); }
        else if h == 62 { assert(brv_double_ok(62)) by (compute_only); }
        else if h == 63 { assert(brv_double_ok(63)) by (compute_only); }
        else if h == 64 { assert(brv_double_ok(64)) by (compute_only); }
        else if h == 65 { assert(brv_double_ok(65)) by (compute_only); }
        else if h == 66 { assert(brv_double_ok(66)) by (compute_only); }
        else if h == 67 { assert(brv_double_ok(67)) by (compute_only); }
        else if h == 68 { assert(brv_double_ok(68)) by (compute_only); }
        else if h == 69 { assert(brv_double_ok(69)) by (compute_only); }
        else if h == 70 { assert(brv_double_ok(70)) by (compute_only); }
        else if h == 71 { assert(brv_double_ok(71)) by (compute_only); }
        else if h == 72 { assert(brv_double_ok(72)) by (compute_only); }
        else if h == 73 { assert(brv_double_ok(73)) by (compute_only); }
        else if h == 74 { assert(brv_double_ok(74)) by (compute_only); }
        else if h == 75 { assert(brv_double_ok(75)) by (compute_only); }
        else if h == 76 { assert(brv_double_ok(76)) by (compute_only); }
        else if h == 77 { assert(brv_double_ok(77)) by (compute_only); }
        else if h == 78 { assert(brv_double_ok(78)) by (compute_only); }
        else if h == 79 { assert(brv_double_ok(79)) by (compute_only); }
        else if h == 80 { assert(brv_double_ok(80)) by (compute_only); }
        else if h == 81 { assert(brv_double_ok(81)) by (compute_only); }
        else if h == 82 { assert(brv_double_ok(82)) by (compute_only); }
        else if h == 83 { assert(brv_double_ok(83)) by (compute_only); }
        else if h == 84 { assert(brv_double_ok(84)) by (compute_only); }
        else if h == 85 { assert(brv_double_ok(85)) by (compute_only); }
        else if h == 86 { assert(brv_double_ok(86)) by (compute_only); }
        else if h == 87 { assert(brv_double_ok(87)) by (compute_only); }
        else if h == 88 { assert(brv_double_ok(88)) by (compute_only); }
        else if h == 89 { assert(brv_double_ok(89)) by (compute_only); }
        else if h == 90 { assert(brv_double_ok(90)) by (compute_only); }
        else if h == 91 { assert(brv_double_ok(91)) by (compute_only); }
        else if h == 92 { assert(brv_double_ok(92)) by (compute_only); }
        else if h == 93 { assert(brv_double_ok(93)) by (compute_only); }
        else if h == 94 { assert(brv_double_ok(94)) by (compute_only); }
        else if h == 95 { assert(brv_double_ok(95)) by (compute_only); }
        else if h == 96 { assert(brv_double_ok(96)) by (compute_only); }
        else if h == 97 { assert(brv_double_ok(97)) by (compute_only); }
        else if h == 98 { assert(brv_double_ok(98)) by (compute_only); }
        else if h == 99 { assert(brv_double_ok(99)) by (compute_only); }
        else if h == 100 { assert(brv_double_ok(100)) by (compute_only); }
        else if h == 101 { assert(brv_double_ok(101)) by (compute_only); }
        else if h == 102 { assert(brv_double_ok(102)) by (compute_only); }
        else if h == 103 { assert(brv_double_ok(103)) by (compute_only); }
        else if h == 104 { assert(brv_double_ok(104)) by (compute_only); }
        else if h == 105 { assert(brv_double_ok(105)) by (compute_only); }
        else if h == 106 { assert(brv_double_ok(106)) by (compute_only); }
        else if h == 107 { assert(brv_double_ok(107)) by (compute_only); }
        else if h == 108 { assert(brv_double_ok(108)) by (compute_only); }
        else if h == 109 { assert(brv_double_ok(109)) by (compute_only); }
        else if h == 110 { assert(brv_double_ok(110)) by (compute_only); }
        else if h == 111 { assert(brv_double_ok(111)) by (compute_only); }
        else if h == 112 { assert(brv_double_ok(112)) by (compute_only); }
        else if h == 113 { assert(brv_double_ok(113)) by (compute_only); }
        else if h == 114 { assert(brv_double_ok(114)) by (compute_only); }
        else if h == 115 { assert(brv_double_ok(115)) by (compute_only); }
        else if h == 116 { assert(brv_double_ok(116)) by (compute_only); }
        else if h == 117 { assert(brv_double_ok(117)) by (compute_only); }
        else if h == 118 { assert(brv_double_ok(118)) by (compute_only); }
        else if h == 119 { assert(brv_double_ok(119)) by (compute_only); }
        else if h == 120 { assert(brv_double_ok(120)) by (compute_only); }
        else if h == 121 { assert(brv_double_ok(121)) by (compute_only); }
        else if h == 122 { assert(brv_double_ok(122)) by (compute_only); }
        else if h == 123 { assert(brv_double_ok(123)) by (compute_only); }
        else if h == 124 { assert(brv_double_ok(124)) by (compute_only); }
        else if h == 125 { assert(brv_double_ok(125)) by (compute_only); }
        else if h == 126 { assert(brv_double_ok(126)) by (compute_only); }
        else if h == 127 { assert(brv_double_ok(127)) by (compute_only); }
        else if h == 128 { assert(brv_double_ok(128)) by (compute_only); }
        else if h == 129 { assert(brv_double_ok(129)) by (compute_only); }
        else if h == 130 { assert(brv_double_ok(130)) by (compute_only); }
        else if h == 131 { assert(brv_double_ok(131)) by (compute_only); }
        else if h == 132 { assert(brv_double_ok(132)) by (compute_only); }
        else if h == 133 { assert(brv_double_ok(133)) by (compute_only); }
        else if h == 134 { assert(brv_double_ok(134)) by (compute_only); }
        else if h == 135 { assert(brv_double_ok(135)) by (compute_only); }
        else if h == 136 { assert(brv_double_ok(136)) by (compute_only); }
        else if h == 137 { assert(brv_double_ok(137)) by (compute_only); }
        else if h == 138 { assert(brv_double_ok(138)) by (compute_only); }
        else if h == 139 { assert(brv_double_ok(139)) by (compute_only); }
        else if h == 140 { assert(brv_double_ok(140)) by (compute_only); }
        else if h == 141 { assert(brv_double_ok(141)) by (compute_only); }
        else if h == 142 { assert(brv_double_ok(142)) by (compute_only); }
        else if h == 143 { assert(brv_double_ok(143)) by (compute_only); }
        else if h == 144 { assert(brv_double_ok(144)) by (compute_only); }
        else if h == 145 { assert(brv_double_ok(145)) by (compute_only); }
        else if h == 146 { assert(brv_double_ok(146)) by (compute_only); }
        else if h == 147 { assert(brv_double_ok(147)) by (compute_only); }
        else if h == 148 { assert(brv_double_ok(148)) by (compute_only); }
        else if h == 149 { assert(brv_double_ok(149)) by (compute_only); }
        else if h == 150 { assert(brv_double_ok(150)) by (compute_only); }
        else if h == 151 { assert(brv_double_ok(151)) by (compute_only); }
        else if h == 152 { assert(brv_double_ok(152)) by (compute_only); }
        else if h == 153 { assert(brv_double_ok(153)) by (compute_only); }
        else if h == 154 { assert(brv_double_ok(154)) by (compute_only); }
        else if h == 155 { assert(brv_double_ok(155)) by (compute_only); }
        else if h == 156 { assert(brv_double_ok(156)) by (compute_only); }
        else if h == 157 { assert(brv_double_ok(157)) by (compute_only); }
        else if h == 158 { assert(brv_double_ok(158)) by (compute_only); }
        else if h == 159 { assert(brv_double_ok(159)) by (compute_only); }
        else if h == 160 { assert(brv_double_ok(160)) by (compute_only); }
        else if h == 161 { assert(brv_double_ok(161)) by (compute_only); }
        else if h == 162 { assert(brv_double_ok(162)) by (compute_only); }
        else if h == 163 { assert(brv_double_ok(163)) by (compute_only); }
        else if h == 164 { assert(brv_double_ok(164)) by (compute_only); }
        else if h == 165 { assert(brv_double_ok(165)) by (compute_only); }
        else if h == 166 { assert(brv_double_ok(166)) by (compute_only); }
        else if h == 167 { assert(brv_double_ok(167)) by (compute_only); }
        else if h == 168 { assert(brv_double_ok(168)) by (compute_only); }
        else if h == 169 { assert(brv_double_ok(169)) by (compute_only); }
        else if h == 170 { assert(brv_double_ok(170)) by (compute_only); }
        else if h == 171 { assert(brv_double_ok(171)) by (compute_only); }
        else if h == 172 { assert(brv_double_ok(172)) by (compute_only); }
        else if h == 173 { assert(brv_double_ok(173)) by (compute_only); }
        else if h == 174 { assert(brv_double_ok(174)) by (compute_only); }
        else if h == 175 { assert(brv_double_ok(175)) by (compute_only); }
        else if h == 176 { assert(brv_double_ok(176)) by (compute_only); }
        else if h == 177 { assert(brv_double_ok(177)) by (compute_only); }
        else if h == 178 { assert(brv_double_ok(178)) by (compute_only); }
        else if h == 179 { assert(brv_double_ok(179)) by (compute_only); }
        else if h == 180 { assert(brv_double_ok(180)) by (compute_only); }
        else if h == 181 { assert(brv_double_ok(181)) by (compute_only); }
        else if h == 182 { assert(brv_double_ok(182)) by (compute_only); }
        else if h == 183 { assert(brv_double_ok(183)) by (compute_only); }
        else if h == 184 { assert(brv_double_ok(184)) by (compute_only); }
        else if h == 185 { assert(brv_double_ok(185)) by (compute_only); }
        else if h == 186 { assert(brv_double_ok(186)) by (compute_only); }
        else if h == 187 { assert(brv_double_ok(187)) by (compute_only); }
        else if h == 188 { assert(brv_double_ok(188)) by (compute_only); }
        else if h == 189 { assert(brv_double_ok(189)) by (compute_only); }
        else if h == 190 { assert(brv_double_ok(190)) by (compute_only); }
        else if h == 191 { assert(brv_double_ok(191)) by (compute_only); }
        else if h == 192 { assert(brv_double_ok(192)) by (compute_only); }
        else if h == 193 { assert(brv_double_ok(193)) by (compute_only); }
        else if h == 194 { assert(brv_double_ok(194)) by (compute_only); }
        else if h == 195 { assert(brv_double_ok(195)) by (compute_only); }
        else if h == 196 { assert(brv_double_ok(196)) by (compute_only); }
        else if h == 197 { assert(brv_double_ok(197)) by (compute_only); }
        else if h == 198 { assert(brv_double_ok(198)) by (compute_only); }
        else if h == 199 { assert(brv_double_ok(199)) by (compute_only); }
        else if h == 200 { assert(brv_double_ok(200)) by (compute_only); }
        else if h == 201 { assert(brv_double_ok(201)) by (compute_only); }
        else if h == 202 { assert(brv_double_ok(202)) by (compute_only); }
        else if h == 203 { assert(brv_double_ok(203)) by (compute_only); }
        else if h == 204 { assert(brv_double_ok(204)) by (compute_only); }
        else if h == 205 { assert(brv_double_ok(205)) by (compute_only); }
        else if h == 206 { assert(brv_double_ok(206)) by (compute_only); }
        else if h == 207 { assert(brv_double_ok(207)) by (compute_only); }
        else if h == 208 { assert(brv_double_ok(208)) by (compute_only); }
        else if h == 209 { assert(brv_double_ok(209)) by (compute_only); }
        else if h == 210 { assert(brv_double_ok(210)) by (compute_only); }
        else if h == 211 { assert(brv_double_ok(211)) by (compute_only); }
        else if h == 212 { assert(brv_double_ok(212)) by (compute_only); }
        else if h == 213 { assert(brv_double_ok(213)) by (compute_only); }
        else if h == 214 { assert(brv_double_ok(214)) by (compute_only); }
        else if h == 215 { assert(brv_double_ok(215)) by (compute_only); }
        else if h == 216 { assert(brv_double_ok(216)) by (compute_only); }
        else if h == 217 { assert(brv_double_ok(217)) by (compute_only); }
        else if h == 218 { assert(brv_double_ok(218)) by (compute_only); }
        else if h == 219 { assert(brv_double_ok(219)) by (compute_only); }
        else if h == 220 { assert(brv_double_ok(220)) by (compute_only); }
        else if h == 221 { assert(brv_double_ok(221)) by (compute_only); }
        else if h == 222 { assert(brv_double_ok(222)) by (compute_only); }
        else if h == 223 { assert(brv_double_ok(223)) by (compute_only); }
        else if h == 224 { assert(brv_double_ok(224)) by (compute_only); }
        else if h == 225 { assert(brv_double_ok(225)) by (compute_only); }
        else if h == 226 { assert(brv_double_ok(226)) by (compute_only); }
        else if h == 227 { assert(brv_double_ok(227)) by (compute_only); }
        else if h == 228 { assert(brv_double_ok(228)) by (compute_only); }
        else if h == 229 { assert(brv_double_ok(229)) by (compute_only); }
        else if h == 230 { assert(brv_double_ok(230)) by (compute_only); }
        else if h == 231 { assert(brv_double_ok(231)) by (compute_only); }
        else if h == 232 { assert(brv_double_ok(232)) by (compute_only); }
        else if h == 233 { assert(brv_double_ok(233)) by (compute_only); }
        else if h == 234 { assert(brv_double_ok(234)) by (compute_only); }
        else if h == 235 { assert(brv_double_ok(235)) by (compute_only); }
        else if h == 236 { assert(brv_double_ok(236)) by (compute_only); }
        else if h == 237 { assert(brv_double_ok(237)) by (compute_only); }
        else if h == 238 { assert(brv_double_ok(238)) by (compute_only); }
        else if h == 239 { assert(brv_double_ok(239)) by (compute_only); }
        else if h == 240 { assert(brv_double_ok(240)) by (compute_only); }
        else if h == 241 { assert(brv_double_ok(241)) by (compute_only); }
        else if h == 242 { assert(brv_double_ok(242)) by (compute_only); }
        else if h == 243 { assert(brv_double_ok(243)) by (compute_only); }
        else if h == 244 { assert(brv_double_ok(244)) by (compute_only); }
        else if h == 245 { assert(brv_double_ok(245)) by (compute_only); }
        else if h == 246 { assert(brv_double_ok(246)) by (compute_only); }
        else if h == 247 { assert(brv_double_ok(247)) by (compute_only); }
        else if h == 248 { assert(brv_double_ok(248)) by (compute_only); }
        else if h == 249 { assert(brv_double_ok(249)) by (compute_only); }
        else if h == 250 { assert(brv_double_ok(250)) by (compute_only); }
        else if h == 251 { assert(brv_double_ok(251)) by (compute_only); }
        else if h == 252 { assert(brv_double_ok(252)) by (compute_only); }
        else if h == 253 { assert(brv_double_ok(253)) by (compute_only); }
        else if h == 254 { assert(brv_double_ok(254)) by (compute_only); }
        else if h == 255 { assert(brv_double_ok(255)) by (compute_only); }
    }
    // the zeta of a block squares to the block constant
    pub proof fn lemma_zeta_sq(h: int)
        requires 1 <= h < 256,
        ensures cong(zeta_brv(h) * zeta_brv(h), cc(h)),
    {
        lemma_brv_double(h);
        let e = brv8(h as u8) as int;
        lemma_zpow_add(e, e);
        lemma_zpow_256();
        assert(cong(8_380_416, -1)) by { lemma_cong_from(8_380_416, -1, 1); }
        if h == 1 {
            assert(zpow(e + e) == zpow(256));
            lemma_cong_trans(zpow(e) * zpow(e), zpow(256), -1);
        } else if h % 2 == 0 {
            assert(cc(h) == zpow(brv8((h / 2) as u8) as int));
        } else {
            let f = brv8((h / 2) as u8) as int;
            lemma_zpow_add(256, f);
            lemma_cong_sym(zpow(256) * zpow(f), zpow(256 + f));
            lemma_cong_trans(zpow(e) * zpow(e), zpow(256 + f), zpow(256) * zpow(f));
            lemma_cong_refl(zpow(f));
            lemma_cong_mul(zpow(256), -1, zpow(f), zpow(f));
            assert((-1) * zpow(f) == -zpow(f));
            lemma_cong_trans(zpow(e) * zpow(e), zpow(256) * zpow(f), -zpow(f));
        }
    }
    pub proof fn lemma_cc_sq(m: int)
        requires 2 <= m < 512,
        ensures cong(cc(m) * cc(m), cc(m / 2)),
    {
        let h = m / 2;
        lemma_zeta_sq(h);
        let z = zeta_brv(h);
        assert(cc(m) * cc(m) == z * z) by (nonlinear_arith) requires cc(m) == z || cc(m) == -z;
    }
    // strided evaluation: sum over t < n of a[i + t*st] * c^t   ("coefficient i of a mod (X^st - c)" when n*st == 256)
    pub open spec fn sev(a: Seq<int>, i: int, st: int, n: int, c: int) -> int
        decreases n
    {
        if n <= 0 { 0 } else { sev(a, i, st, n - 1, c) + a[i + (n - 1) * st] * ipow(c, n - 1) }
    }
    pub proof fn lemma_sev_cong(a: Seq<int>, i: int, st: int, n: int, c: int, d: int)
        requires cong(c, d), n >= 0,
        ensures cong(sev(a, i, st, n, c), sev(a, i, st, n, d)),
        decreases n
    {
        if n == 0 { lemma_cong_refl(0); } else {
            lemma_sev_cong(a, i, st, n - 1, c, d);
            lemma_ipow_cong(c, d, n - 1);
            let x = a[i + (n - 1) * st];
            lemma_cong_refl(x);
            lemma_cong_mul(x, x, ipow(c, n - 1), ipow(d, n - 1));
            lemma_cong_add(sev(a, i, st, n - 1, c), sev(a, i, st, n - 1, d), x * ipow(c, n - 1), x * ipow(d, n - 1));
        }
    }
    // splitting by the parity of the exponent: with z*z == c (mod q),
    //   sum_{t<2n} a[i + t*len] z^t  ==  sum_{u<n} a[i + u*2len] c^u  +  z * sum_{u<n} a[i+len + u*2len] c^u
    pub proof fn lemma_sev_split(a: Seq<int>, i: int, len: int, n: int, z: int, c: int)
        requires cong(z * z, c), n >= 0,
        ensures cong(sev(a, i, len, 2 * n, z), sev(a, i, 2 * len, n, c) + z * sev(a, i + len, 2 * len, n, c)),
        decreases n
    {
        if n == 0 {
            assert(z * 0 == 0);
            lemma_cong_refl(0);
        } else {
            lemma_sev_split(a, i, len, n - 1, z, c);
            let u = n - 1;
            // unfold the left side twice
            let l0 = sev(a, i, len, 2 * u, z);
            let xe = a[i + (2 * u) * len]; let xo = a[i + (2 * u + 1) * len];
            assert(sev(a, i, len, 2 * n, z) == sev(a, i, len, 2 * n - 1, z) + a[i + (2 * n - 1) * len] * ipow(z, 2 * n - 1));
            assert(sev(a, i, len, 2 * n - 1, z) == sev(a, i, len, 2 * n - 2, z) + a[i + (2 * n - 2) * len] * ipow(z, 2 * n - 2));
            assert(2 * n - 2 == 2 * u && 2 * n - 1 == 2 * u + 1);
            assert(sev(a, i, len, 2 * n, z) == l0 + xe * ipow(z, 2 * u) + xo * ipow(z, 2 * u + 1));
            // the right side
            let r0 = sev(a, i, 2 * len, u, c); let r1 = sev(a, i + len, 2 * len, u, c);
            assert((2 * u) * len == u * (2 * len)) by (nonlinear_arith);
            assert(i + len + u * (2 * len) == i + (2 * u + 1) * len) by (nonlinear_arith);
            assert(sev(a, i, 2 * len, n, c) == r0 + xe * ipow(c, u));
            assert(sev(a, i + len, 2 * len, n, c) == r1 + xo * ipow(c, u));
            // z^(2u) == c^u, z^(2u+1) == z * c^u
            lemma_ipow_sq(z, c, u);
            let pz = ipow(z, 2 * u); let pc = ipow(c, u);
            assert(ipow(z, 2 * u + 1) == z * pz);
            lemma_cong_refl(xe); lemma_cong_mul(xe, xe, pz, pc);
            lemma_cong_refl(z); lemma_cong_mul(z, z, pz, pc);
            lemma_cong_refl(xo); lemma_cong_mul(xo, xo, z * pz, z * pc);
            // assemble: l0 + xe*pz + xo*(z*pz)  ==  (r0 + z*r1) + xe*pc + xo*(z*pc)
            lemma_cong_add(l0, r0 + z * r1, xe * pz, xe * pc);
            lemma_cong_add(l0 + xe * pz, r0 + z * r1 + xe * pc, xo * (z * pz), xo * (z * pc));
            assert(r0 + z * r1 + xe * pc + xo * (z * pc) == (r0 + xe * pc) + z * (r1 + xo * pc)) by (nonlinear_arith);
        }
    }
    // the state after some layers: cnt consecutive blocks of size nn starting at `start`, the block with zeta index m holds a mod (X^nn - cc(m))
    pub open spec fn blocks_ok(a: Seq<int>, w: Seq<int>, nn: int, n: int, m: int, start: int, cnt: int) -> bool
        decreases cnt
    {
        if cnt <= 0 { true } else {
            (forall|i: int| 0 <= i < nn ==> cong(#[trigger] w[start + i], sev(a, i, nn, n, cc(m))))
            && blocks_ok(a, w, nn, n, m + 1, start + nn, cnt - 1)
        }
    }
    // blocks_ok only looks at w from `start` on
    pub proof fn lemma_blocks_ext(a: Seq<int>, w: Seq<int>, w2: Seq<int>, nn: int, n: int, m: int, start: int, cnt: int)
        requires blocks_ok(a, w, nn, n, m, start, cnt), nn >= 1, start >= 0, forall|p: int| start <= p < start + cnt * nn ==> w[p] == w2[p],
        ensures blocks_ok(a, w2, nn, n, m, start, cnt),
        decreases cnt
    {
        if cnt > 0 {
            assert(cnt * nn == (cnt - 1) * nn + nn) by (nonlinear_arith);
            assert((cnt - 1) * nn >= 0) by (nonlinear_arith) requires cnt >= 1, nn >= 1;
            lemma_blocks_ext(a, w, w2, nn, n, m + 1, start + nn, cnt - 1);
            assert forall|i: int| 0 <= i < nn implies cong(#[trigger] w2[start + i], sev(a, i, nn, n, cc(m))) by {
                assert(w[start + i] == w2[start + i]);
            }
        }
    }
    // one layer of Algorithm 41 from block `start` on: every block splits into its two halves
    pub proof fn lemma_ntt_layer_eval(a: Seq<int>, w: Seq<int>, len: int, n: int, m0: int, start: int, cnt: int)
        requires w.len() == 256, 1 <= len <= 128, start >= 0, cnt >= 0, 256 - start == 2 * len * cnt, n >= 0,
            1 <= m0 + 1, m0 + cnt <= 255,
            blocks_ok(a, w, 2 * len, n, m0 + 1, start, cnt),
        ensures blocks_ok(a, ntt_start_loop(w, len, m0, start), len, 2 * n, 2 * (m0 + 1), start, 2 * cnt),
        decreases cnt
    {
        if cnt > 0 {
            lemma_blocks_step(start, len, cnt);
            let zi = m0 + 1;
            let z = zeta_brv(zi);
            lemma_zeta_sq(zi);
            let w2 = ntt_j_loop(w, z, start, len, start);
            lemma_ntt_j_loop_at(w, z, start, len, start);
            let r = ntt_start_loop(w, len, m0, start);
            assert(r == ntt_start_loop(w2, len, m0 + 1, start + 2 * len));
            lemma_ntt_start_loop_prefix(w2, len, m0 + 1, start + 2 * len, cnt - 1);
            // the remaining blocks are untouched by this block's butterflies
            assert(blocks_ok(a, w, 2 * len, n, zi + 1, start + 2 * len, cnt - 1));
            assert((cnt - 1) * (2 * len) == 256 - (start + 2 * len)) by (nonlinear_arith) requires 256 - (start + 2 * len) == 2 * len * (cnt - 1);
            lemma_blocks_ext(a, w, w2, 2 * len, n, zi + 1, start + 2 * len, cnt - 1);
            lemma_ntt_layer_eval(a, w2, len, n, m0 + 1, start + 2 * len, cnt - 1);
            assert(2 * (cnt - 1) == 2 * cnt - 2 && 2 * (m0 + 2) == 2 * zi + 2);
            // this block: first half gets  + z, second half  - z
            assert(cc(2 * zi) == z && cc(2 * zi + 1) == -z);
            assert(cong((-z) * (-z), cc(zi))) by { assert((-z) * (-z) == z * z) by (nonlinear_arith); }
            assert forall|i: int| 0 <= i < len implies cong(#[trigger] r[start + i], sev(a, i, len, 2 * n, cc(2 * zi))) by {
                assert(r[start + i] == w2[start + i]);
                assert(w2[start + i] == w[start + i] + z * w[start + i + len]);
                assert(cong(w[start + i], sev(a, i, 2 * len, n, cc(zi))));
                assert(cong(w[start + (i + len)], sev(a, i + len, 2 * len, n, cc(zi))));
                lemma_sev_split(a, i, len, n, z, cc(zi));
                lemma_cong_refl(z);
                lemma_cong_mul(z, z, w[start + i + len], sev(a, i + len, 2 * len, n, cc(zi)));
                lemma_cong_add(w[start + i], sev(a, i, 2 * len, n, cc(zi)), z * w[start + i + len], z * sev(a, i + len, 2 * len, n, cc(zi)));
                lemma_cong_sym(sev(a, i, len, 2 * n, z), sev(a, i, 2 * len, n, cc(zi)) + z * sev(a, i + len, 2 * len, n, cc(zi)));
                lemma_cong_trans(w2[start + i], sev(a, i, 2 * len, n, cc(zi)) + z * sev(a, i + len, 2 * len, n, cc(zi)), sev(a, i, len, 2 * n, z));
            }
            assert forall|i: int| 0 <= i < len implies cong(#[trigger] r[start + len + i], sev(a, i, len, 2 * n, cc(2 * zi + 1))) by {
                let p = start + len + i;
                assert(r[p] == w2[p]);
                assert(w2[p] == w[p - len] - z * w[p]);
                assert(p - len == start + i);
                assert(cong(w[start + i], sev(a, i, 2 * len, n, cc(zi))));
                assert(cong(w[start + (i + len)], sev(a, i + len, 2 * len, n, cc(zi))));
                lemma_sev_split(a, i, len, n, -z, cc(zi));
                let s0 = sev(a, i, 2 * len, n, cc(zi)); let s1 = sev(a, i + len, 2 * len, n, cc(zi));
                lemma_cong_refl(-z);
                lemma_cong_mul(-z, -z, w[p], s1);
                lemma_cong_add(w[start + i], s0, (-z) * w[p], (-z) * s1);
                assert(w[start + i] + (-z) * w[p] == w[p - len] - z * w[p]) by (nonlinear_arith) requires p - len == start + i;
                lemma_cong_sym(sev(a, i, len, 2 * n, -z), s0 + (-z) * s1);
                lemma_cong_trans(w2[p], s0 + (-z) * s1, sev(a, i, len, 2 * n, -z));
            }
            // assemble the recursive predicate: two new blocks, then the rest
            assert(blocks_ok(a, r, len, 2 * n, 2 * zi + 2, start + 2 * len, 2 * cnt - 2));
            assert(blocks_ok(a, r, len, 2 * n, 2 * zi + 1, start + len, 2 * cnt - 1)) by {
                assert(start + len + len == start + 2 * len);
            }
        }
    }
    pub open spec fn n256(k: int) -> int { if k == 0 { 256 } else if k == 1 { 128 } else if k == 2 { 64 } else if k == 3 { 32 } else if k == 4 { 16 } else if k == 5 { 8 } else if k == 6 { 4 } else if k == 7 { 2 } else { 1 } }
    // after k layers, block b of size 256 >> k holds a mod (X^(256>>k) - cc(2^k + b))
    pub proof fn lemma_ntt_prefix_eval(a: Seq<int>, k: int)
        requires a.len() == 256, 0 <= k <= 8,
        ensures blocks_ok(a, ntt_prefix(a, k), n256(k), pw2(k), pw2(k), 0, pw2(k)), ntt_prefix(a, k).len() == 256,
        decreases k
    {
        reveal_with_fuel(pw2, 10);
        if k == 0 {
            assert(pw2(0) == 1);
            assert forall|i: int| 0 <= i < 256 implies cong(#[trigger] a[0 + i], sev(a, i, 256, 1, cc(1))) by {
                assert(sev(a, i, 256, 1, cc(1)) == sev(a, i, 256, 0, cc(1)) + a[i + 0 * 256] * ipow(cc(1), 0));
                assert(a[i] * 1 == a[i]);
                lemma_cong_refl(a[i]);
            }
            assert(blocks_ok(a, a, 256, 1, 2, 256, 0));
        } else {
            lemma_ntt_prefix_eval(a, k - 1);
            lemma_ntt_prefix(a, k - 1);
            let p = ntt_prefix(a, k - 1);
            let len = ntt_len(k - 1); let m0 = ntt_m0(k - 1); let cnt = pw2(k - 1);
            assert(cnt == m0 + 1 && n256(k - 1) == 2 * len && n256(k) == len && pw2(k) == 2 * cnt);
            assert(256 - 0 == 2 * len * cnt) by {
                if k == 1 { assert(2 * 128 * 1 == 256); } else if k == 2 { assert(2 * 64 * 2 == 256); } else if k == 3 { assert(2 * 32 * 4 == 256); }
                else if k == 4 { assert(2 * 16 * 8 == 256); } else if k == 5 { assert(2 * 8 * 16 == 256); } else if k == 6 { assert(2 * 4 * 32 == 256); }
                else if k == 7 { assert(2 * 2 * 64 == 256); } else { assert(2 * 1 * 128 == 256); }
            }
            lemma_ntt_layer_eval(a, p, len, cnt, m0, 0, cnt);
            lemma_ntt_prefix(a, k);
        }
    }
    pub proof fn lemma_blocks_at1(a: Seq<int>, w: Seq<int>, n: int, m: int, start: int, cnt: int, j: int)
        requires blocks_ok(a, w, 1, n, m, start, cnt), 0 <= j < cnt,
        ensures cong(w[start + j], sev(a, 0, 1, n, cc(m + j))),
        decreases cnt
    {
        if j == 0 { assert(cong(w[start + 0], sev(a, 0, 1, n, cc(m)))); } else {
            lemma_blocks_at1(a, w, n, m + 1, start + 1, cnt - 1, j - 1);
            assert(start + 1 + (j - 1) == start + j && m + 1 + (j - 1) == m + j);
        }
    }
    // value of the polynomial with coefficients a at r
    pub open spec fn peval(a: Seq<int>, r: int) -> int { sev(a, 0, 1, 256, r) }
    // the point at which output coefficient j of Algorithm 41 evaluates its input
    pub open spec fn ntt_root(j: int) -> int { cc(256 + j) }
    pub proof fn lemma_ntt_is_eval(a: Seq<int>, j: int)
        requires a.len() == 256, 0 <= j < 256,
        ensures cong(spec_ntt(a)[j], peval(a, ntt_root(j))),
    {
        reveal(spec_ntt);
        lemma_ntt_prefix(a, 8);
        lemma_ntt_prefix_eval(a, 8);
        assert(pw2(8) == 256) by (compute_only);
        lemma_blocks_at1(a, ntt_prefix(a, 8), 256, 256, 0, 256, j);
    }
    // the evaluation points are roots of X^256 + 1: cc(m)^(2^k) == -1 for 2^k <= m < 2^(k+1)
    pub proof fn lemma_root_pow(m: int, k: int)
        requires 0 <= k <= 8, pw2(k) <= m < 2 * pw2(k),
        ensures cong(ipow(cc(m), pw2(k)), -1),
        decreases k
    {
        reveal_with_fuel(pw2, 10);
        if k == 0 {
            assert(m == 1);
            assert(ipow(-1, 1) == (-1) * ipow(-1, 0));
            lemma_cong_refl(-1);
        } else {
            assert(pw2(k) == 2 * pw2(k - 1));
            assert(pw2(k) <= 256);
            lemma_cc_sq(m);
            lemma_ipow_sq(cc(m), cc(m / 2), pw2(k - 1));
            lemma_root_pow(m / 2, k - 1);
            lemma_cong_trans(ipow(cc(m), pw2(k)), ipow(cc(m / 2), pw2(k - 1)), -1);
        }
    }
    pub proof fn lemma_ntt_root_256(j: int)
        requires 0 <= j < 256,
        ensures cong(ipow(ntt_root(j), 256), -1),
    {
        assert(pw2(8) == 256) by (compute_only);
        lemma_root_pow(256 + j, 8);
    }
    // ---- the ring Z[X]/(X^256+1) on coefficient sequences: multiplication by X, and the product as sum_i a[i] * X^i * b
    pub open spec fn xshift(b: Seq<int>) -> Seq<int> { Seq::new(256, |n: int| if n == 0 { -b[255] } else { b[n - 1] }) }
    pub open spec fn xshift_n(b: Seq<int>, i: int) -> Seq<int> decreases i { if i <= 0 { b } else { xshift(xshift_n(b, i - 1)) } }
    pub open spec fn padd(x: Seq<int>, y: Seq<int>) -> Seq<int> { Seq::new(256, |n: int| x[n] + y[n]) }
    pub open spec fn pscale(c: int, x: Seq<int>) -> Seq<int> { Seq::new(256, |n: int| c * x[n]) }
    pub open spec fn pzero() -> Seq<int> { Seq::new(256, |n: int| 0int) }
    pub open spec fn ring_mul_upto(a: Seq<int>, b: Seq<int>, k: int) -> Seq<int>
        decreases k
    {
        if k <= 0 { pzero() } else { padd(ring_mul_upto(a, b, k - 1), pscale(a[k - 1], xshift_n(b, k - 1))) }
    }
    // the negacyclic product a * b in Z[X]/(X^256+1)
    pub open spec fn ring_mul(a: Seq<int>, b: Seq<int>) -> Seq<int> { ring_mul_upto(a, b, 256) }

    pub proof fn lemma_sev1_add(x: Seq<int>, y: Seq<int>, n: int, r: int)
        requires 0 <= n <= 256,
        ensures sev(padd(x, y), 0, 1, n, r) == sev(x, 0, 1, n, r) + sev(y, 0, 1, n, r),
        decreases n
    {
        if n > 0 {
            lemma_sev1_add(x, y, n - 1, r);
            let t = n - 1;
            assert(0 + t * 1 == t);
            assert(padd(x, y)[t] == x[t] + y[t]);
            assert((x[t] + y[t]) * ipow(r, t) == x[t] * ipow(r, t) + y[t] * ipow(r, t)) by (nonlinear_arith);
        }
    }
    pub proof fn lemma_sev1_scale(c: int, x: Seq<int>, n: int, r: int)
        requires 0 <= n <= 256,
        ensures sev(pscale(c, x), 0, 1, n, r) == c * sev(x, 0, 1, n, r),
        decreases n
    {
        if n > 0 {
            lemma_sev1_scale(c, x, n - 1, r);
            let t = n - 1;
            assert(0 + t * 1 == t);
            assert(pscale(c, x)[t] == c * x[t]);
            assert(c * sev(x, 0, 1, n - 1, r) + (c * x[t]) * ipow(r, t) == c * (sev(x, 0, 1, n - 1, r) + x[t] * ipow(r, t))) by (nonlinear_arith);
        } else { assert(c * 0 == 0); }
    }
    pub proof fn lemma_sev1_zero(n: int, r: int)
        requires 0 <= n <= 256,
        ensures sev(pzero(), 0, 1, n, r) == 0,
        decreases n
    {
        if n > 0 {
            lemma_sev1_zero(n - 1, r);
            assert(0 + (n - 1) * 1 == n - 1);
            assert(pzero()[n - 1] == 0);
            assert(0 * ipow(r, n - 1) == 0);
        }
    }
    // sum over the first n coefficients of X*b is  (X*b)[0] + r * (sum over the first n-1 coefficients of b)
    pub proof fn lemma_sev1_shift(b: Seq<int>, n: int, r: int)
        requires 1 <= n <= 256, b.len() == 256,
        ensures sev(xshift(b), 0, 1, n, r) == xshift(b)[0] + r * sev(b, 0, 1, n - 1, r),
        decreases n
    {
        let xs = xshift(b);
        if n == 1 {
            assert(sev(xs, 0, 1, 1, r) == sev(xs, 0, 1, 0, r) + xs[0int + 0int * 1int] * ipow(r, 0));
            assert(xs[0] * 1 == xs[0]);
            assert(r * 0 == 0);
        } else {
            lemma_sev1_shift(b, n - 1, r);
            let t = n - 1;
            assert(0 + t * 1 == t && 0 + (t - 1) * 1 == t - 1);
            assert(xs[t] == b[t - 1]);
            assert(ipow(r, t) == r * ipow(r, t - 1));
            assert(sev(b, 0, 1, n - 1, r) == sev(b, 0, 1, n - 2, r) + b[t - 1] * ipow(r, t - 1));
            assert(r * (sev(b, 0, 1, n - 2, r) + b[t - 1] * ipow(r, t - 1)) == r * sev(b, 0, 1, n - 2, r) + b[t - 1] * (r * ipow(r, t - 1))) by (nonlinear_arith);
        }
    }
    // evaluation at a root of X^256+1 turns multiplication by X into multiplication by r
    pub proof fn lemma_peval_shift(b: Seq<int>, r: int)
        requires b.len() == 256, cong(ipow(r, 256), -1),
        ensures cong(peval(xshift(b), r), r * peval(b, r)),
    {
        lemma_sev1_shift(b, 256, r);
        let s = sev(b, 0, 1, 255, r);
        assert(0 + 255 * 1 == 255);
        assert(peval(b, r) == s + b[255] * ipow(r, 255));
        assert(xshift(b)[0] == -b[255]);
        assert(ipow(r, 256) == r * ipow(r, 255));
        // r * peval(b) == r*s + b[255] * r^256 == r*s - b[255]
        assert(r * (s + b[255] * ipow(r, 255)) == r * s + b[255] * (r * ipow(r, 255))) by (nonlinear_arith);
        lemma_cong_refl(b[255]);
        lemma_cong_mul(b[255], b[255], ipow(r, 256), -1);
        assert(b[255] * (-1) == -b[255]);
        lemma_cong_refl(r * s);
        lemma_cong_add(r * s, r * s, b[255] * ipow(r, 256), -b[255]);
        lemma_cong_sym(r * s + b[255] * ipow(r, 256), r * s + (-b[255]));
    }
    pub proof fn lemma_xshift_n_len(b: Seq<int>, i: int)
        requires b.len() == 256, i >= 0,
        ensures xshift_n(b, i).len() == 256,
        decreases i
    { if i > 0 { lemma_xshift_n_len(b, i - 1); } }
    pub proof fn lemma_peval_shift_n(b: Seq<int>, r: int, i: int)
        requires b.len() == 256, cong(ipow(r, 256), -1), i >= 0,
        ensures cong(peval(xshift_n(b, i), r), ipow(r, i) * peval(b, r)),
        decreases i
    {
        if i == 0 {
            assert(1 * peval(b, r) == peval(b, r));
            lemma_cong_refl(peval(b, r));
        } else {
            lemma_peval_shift_n(b, r, i - 1);
            lemma_xshift_n_len(b, i - 1);
            let y = xshift_n(b, i - 1);
            lemma_peval_shift(y, r);
            lemma_cong_refl(r);
            lemma_cong_mul(r, r, peval(y, r), ipow(r, i - 1) * peval(b, r));
            assert(r * (ipow(r, i - 1) * peval(b, r)) == ipow(r, i) * peval(b, r)) by (nonlinear_arith) requires ipow(r, i) == r * ipow(r, i - 1);
            lemma_cong_trans(peval(xshift_n(b, i), r), r * peval(y, r), ipow(r, i) * peval(b, r));
        }
    }
    // evaluation at a root of X^256+1 is multiplicative on the ring product
    pub proof fn lemma_peval_mul_upto(a: Seq<int>, b: Seq<int>, r: int, k: int)
        requires a.len() == 256, b.len() == 256, cong(ipow(r, 256), -1), 0 <= k <= 256,
        ensures cong(peval(ring_mul_upto(a, b, k), r), sev(a, 0, 1, k, r) * peval(b, r)),
        decreases k
    {
        let e = peval(b, r);
        if k == 0 {
            lemma_sev1_zero(256, r);
            assert(0 * e == 0);
            lemma_cong_refl(0);
        } else {
            lemma_peval_mul_upto(a, b, r, k - 1);
            let prev = ring_mul_upto(a, b, k - 1);
            let sh = xshift_n(b, k - 1);
            lemma_sev1_add(prev, pscale(a[k - 1], sh), 256, r);
            lemma_sev1_scale(a[k - 1], sh, 256, r);
            lemma_peval_shift_n(b, r, k - 1);
            // peval(upto k) == peval(prev) + a[k-1] * peval(sh)
            let x = a[k - 1];
            lemma_cong_refl(x);
            lemma_cong_mul(x, x, peval(sh, r), ipow(r, k - 1) * e);
            lemma_cong_add(peval(prev, r), sev(a, 0, 1, k - 1, r) * e, x * peval(sh, r), x * (ipow(r, k - 1) * e));
            assert(0 + (k - 1) * 1 == k - 1);
            assert(sev(a, 0, 1, k - 1, r) * e + x * (ipow(r, k - 1) * e) == (sev(a, 0, 1, k - 1, r) + x * ipow(r, k - 1)) * e) by (nonlinear_arith);
        }
    }
    // M-ring: Algorithm 41 maps the negacyclic product to the coefficient-wise product (mod q)
    pub proof fn lemma_ntt_mul(a: Seq<int>, b: Seq<int>, j: int)
        requires a.len() == 256, b.len() == 256, 0 <= j < 256,
        ensures cong(spec_ntt(ring_mul(a, b))[j], spec_ntt(a)[j] * spec_ntt(b)[j]),
    {
        let r = ntt_root(j);
        lemma_ntt_root_256(j);
        lemma_peval_mul_upto(a, b, r, 256);
        lemma_ntt_is_eval(a, j); lemma_ntt_is_eval(b, j);
        assert(ring_mul(a, b).len() == 256);
        lemma_ntt_is_eval(ring_mul(a, b), j);
        lemma_cong_mul(spec_ntt(a)[j], peval(a, r), spec_ntt(b)[j], peval(b, r));
        lemma_cong_sym(spec_ntt(a)[j] * spec_ntt(b)[j], peval(a, r) * peval(b, r));
        lemma_cong_trans(spec_ntt(ring_mul(a, b))[j], peval(ring_mul(a, b), r), peval(a, r) * peval(b, r));
        lemma_cong_trans(spec_ntt(ring_mul(a, b))[j], peval(a, r) * peval(b, r), spec_ntt(a)[j] * spec_ntt(b)[j]);
    }
    // hence the transform / pointwise-multiply / inverse-transform pipeline returns the ring product reduced into [0, q)
    pub proof fn lemma_pipeline_is_ring_mul(a: Seq<int>, b: Seq<int>, y: Seq<int>)
        requires a.len() == 256, b.len() == 256, y.len() == 256, forall|j: int| 0 <= j < 256 ==> cong(#[trigger] y[j], spec_ntt(a)[j] * spec_ntt(b)[j]),
        ensures forall|n: int| 0 <= n < 256 ==> #[trigger] spec_invntt(y)[n] == ring_mul(a, b)[n] % (Q as int),
    {
        let p = ring_mul(a, b);
        assert forall|j: int| 0 <= j < 256 implies cong(#[trigger] y[j], 1 * spec_ntt(p)[j]) by {
            lemma_ntt_mul(a, b, j);
            lemma_cong_sym(spec_ntt(p)[j], spec_ntt(a)[j] * spec_ntt(b)[j]);
            lemma_cong_trans(y[j], spec_ntt(a)[j] * spec_ntt(b)[j], spec_ntt(p)[j]);
        }
        lemma_invntt_scaled(y, 1, p);
        assert forall|n: int| 0 <= n < 256 implies #[trigger] spec_invntt(y)[n] == p[n] % (Q as int) by { assert(1 * p[n] == p[n]); }
    }
    // C18 over the signer's / verifier's vocabulary: c * s computed as NTT^-1(NTT(c) o demont(stored NTT(s))) is the ring product c * s mod q
    pub proof fn lemma_cmul_is_ring_mul(cs: Seq<int>, shm: [i32; 256], s: Seq<int>)
        requires cs.len() == 256, s.len() == 256, forall|n: int| 0 <= n < 256 ==> mont_of(#[trigger] shm[n] as int, spec_ntt(s)[n]),
        ensures forall|n: int| 0 <= n < 256 ==> #[trigger] cmul(cs, shm)[n] == ring_mul(cs, s)[n] % (Q as int),
    {
        reveal(cmul_seq);
        let y = cmul_seq(cs, shm);
        assert forall|j: int| 0 <= j < 256 implies cong(#[trigger] y[j], spec_ntt(cs)[j] * spec_ntt(s)[j]) by {
            lemma_demont_of_mont(shm[j] as int, spec_ntt(s)[j]);
            lemma_cong_refl(spec_ntt(cs)[j]);
            lemma_cong_mul(spec_ntt(cs)[j], spec_ntt(cs)[j], demont(shm[j] as int), spec_ntt(s)[j]);
        }
        lemma_pipeline_is_ring_mul(cs, s, y);
    }
