    // ---- "behaves identically": sign_spec and verify_spec depend on a key struct only through the coefficient vectors it stands for
    // (two structs for the same vectors may hold different representatives mod q of the Montgomery-form NTT images)
    pub proof fn lemma_cmul_indep(cs: Seq<int>, xa: [i32; 256], xb: [i32; 256], s: Seq<int>)
        requires forall|n: int| 0 <= n < 256 ==> mont_of(#[trigger] xa[n] as int, spec_ntt(s)[n]), forall|n: int| 0 <= n < 256 ==> mont_of(#[trigger] xb[n] as int, spec_ntt(s)[n]),
        ensures cmul(cs, xa) == cmul(cs, xb),
    {
        reveal(cmul_seq);
        let ya = cmul_seq(cs, xa); let yb = cmul_seq(cs, xb);
        assert forall|i: int| 0 <= i < 256 implies cong(#[trigger] ya[i], yb[i]) by {
            lemma_demont_of_mont(xa[i] as int, spec_ntt(s)[i]);
            lemma_demont_of_mont(xb[i] as int, spec_ntt(s)[i]);
            lemma_cong_sym(demont(xb[i] as int), spec_ntt(s)[i]);
            lemma_cong_trans(demont(xa[i] as int), spec_ntt(s)[i], demont(xb[i] as int));
            lemma_cong_refl(spec_ntt(cs)[i]);
            lemma_cong_mul(spec_ntt(cs)[i], spec_ntt(cs)[i], demont(xa[i] as int), demont(xb[i] as int));
        }
        lemma_invntt_cong(ya, yb);
    }
    // all products c * (stored secret) agree between two structs standing for the same (s1, s2, t0)
    pub open spec fn sk_same_products<const K: usize, const L: usize>(ska: PrivateKey<K, L>, skb: PrivateKey<K, L>) -> bool {
        &&& forall|cs: Seq<int>, l: int| 0 <= l < L ==> #[trigger] cmul(cs, ska.s_1_hat_mont[l].0) == cmul(cs, skb.s_1_hat_mont[l].0)
        &&& forall|cs: Seq<int>, k: int| 0 <= k < K ==> #[trigger] cmul(cs, ska.s_2_hat_mont[k].0) == cmul(cs, skb.s_2_hat_mont[k].0)
        &&& forall|cs: Seq<int>, k: int| 0 <= k < K ==> #[trigger] cmul(cs, ska.t_0_hat_mont[k].0) == cmul(cs, skb.t_0_hat_mont[k].0)
    }
    pub proof fn lemma_sk_same_products<const K: usize, const L: usize>(ska: PrivateKey<K, L>, skb: PrivateKey<K, L>, eta: int, s1: Seq<Seq<int>>, s2: Seq<Seq<int>>, t0: Seq<Seq<int>>)
        requires sk_coefs_ok(ska, eta, s1, s2, t0), sk_coefs_ok(skb, eta, s1, s2, t0),
        ensures sk_same_products(ska, skb),
    {
        assert forall|cs: Seq<int>, l: int| 0 <= l < L implies #[trigger] cmul(cs, ska.s_1_hat_mont[l].0) == cmul(cs, skb.s_1_hat_mont[l].0) by {
            assert forall|n: int| 0 <= n < 256 implies mont_of(#[trigger] ska.s_1_hat_mont[l].0[n] as int, spec_ntt(s1[l])[n]) by { }
            assert forall|n: int| 0 <= n < 256 implies mont_of(#[trigger] skb.s_1_hat_mont[l].0[n] as int, spec_ntt(s1[l])[n]) by { }
            lemma_cmul_indep(cs, ska.s_1_hat_mont[l].0, skb.s_1_hat_mont[l].0, s1[l]);
        }
        assert forall|cs: Seq<int>, k: int| 0 <= k < K implies #[trigger] cmul(cs, ska.s_2_hat_mont[k].0) == cmul(cs, skb.s_2_hat_mont[k].0) by {
            assert forall|n: int| 0 <= n < 256 implies mont_of(#[trigger] ska.s_2_hat_mont[k].0[n] as int, spec_ntt(s2[k])[n]) by { }
            assert forall|n: int| 0 <= n < 256 implies mont_of(#[trigger] skb.s_2_hat_mont[k].0[n] as int, spec_ntt(s2[k])[n]) by { }
            lemma_cmul_indep(cs, ska.s_2_hat_mont[k].0, skb.s_2_hat_mont[k].0, s2[k]);
        }
        assert forall|cs: Seq<int>, k: int| 0 <= k < K implies #[trigger] cmul(cs, ska.t_0_hat_mont[k].0) == cmul(cs, skb.t_0_hat_mont[k].0) by {
            assert forall|n: int| 0 <= n < 256 implies mont_of(#[trigger] ska.t_0_hat_mont[k].0[n] as int, spec_ntt(t0[k])[n]) by { }
            assert forall|n: int| 0 <= n < 256 implies mont_of(#[trigger] skb.t_0_hat_mont[k].0[n] as int, spec_ntt(t0[k])[n]) by { }
            lemma_cmul_indep(cs, ska.t_0_hat_mont[k].0, skb.t_0_hat_mont[k].0, t0[k]);
        }
    }
    pub proof fn lemma_attempt_rejected_indep<const K: usize, const L: usize>(a: [[T; L]; K], ska: PrivateKey<K, L>, skb: PrivateKey<K, L>, ys: Seq<Seq<int>>, c: R,
            beta: int, gamma1: int, gamma2: int, omega: int)
        requires sk_same_products(ska, skb), attempt_rejected(a, ska, ys, c, beta, gamma1, gamma2, omega),
        ensures attempt_rejected(a, skb, ys, c, beta, gamma1, gamma2, omega),
    {
        reveal(attempt_rejected);
        let cs = poly_ints(c.0);
        if exists|l: int, n: int| 0 <= l < L && 0 <= n < 256 && #[trigger] rej_z(ska, ys, cs, l, n, gamma1 - beta) {
            let (l, n) = choose|l: int, n: int| 0 <= l < L && 0 <= n < 256 && #[trigger] rej_z(ska, ys, cs, l, n, gamma1 - beta);
            assert(cmul(cs, ska.s_1_hat_mont[l].0) == cmul(cs, skb.s_1_hat_mont[l].0));
            assert(rej_z(skb, ys, cs, l, n, gamma1 - beta));
        } else if exists|k: int, n: int| 0 <= k < K && 0 <= n < 256 && #[trigger] rej_r0(a, ska, ys, cs, k, n, gamma2, gamma2 - beta) {
            let (k, n) = choose|k: int, n: int| 0 <= k < K && 0 <= n < 256 && #[trigger] rej_r0(a, ska, ys, cs, k, n, gamma2, gamma2 - beta);
            assert(cmul(cs, ska.s_2_hat_mont[k].0) == cmul(cs, skb.s_2_hat_mont[k].0));
            assert(rej_r0(a, skb, ys, cs, k, n, gamma2, gamma2 - beta));
        } else if exists|k: int, n: int| 0 <= k < K && 0 <= n < 256 && #[trigger] rej_ct0(ska, cs, k, n, gamma2) {
            let (k, n) = choose|k: int, n: int| 0 <= k < K && 0 <= n < 256 && #[trigger] rej_ct0(ska, cs, k, n, gamma2);
            assert(cmul(cs, ska.t_0_hat_mont[k].0) == cmul(cs, skb.t_0_hat_mont[k].0));
            assert(rej_ct0(skb, cs, k, n, gamma2));
        } else {
            let fa = sgn_hfn(a, ska, ys, cs, gamma2); let fb = sgn_hfn(a, skb, ys, cs, gamma2);
            assert forall|k: int, n: int| 0 <= k < K && 0 <= n < 256 implies #[trigger] fa(k, n) == fb(k, n) by {
                assert(cmul(cs, ska.s_2_hat_mont[k].0) == cmul(cs, skb.s_2_hat_mont[k].0));
                assert(cmul(cs, ska.t_0_hat_mont[k].0) == cmul(cs, skb.t_0_hat_mont[k].0));
            }
            lemma_fn_count_ext(fa, fb, 256 * K as int, K as int);
        }
    }
    pub proof fn lemma_fn_count_ext(f: spec_fn(int, int) -> int, g: spec_fn(int, int) -> int, n: int, kk: int)
        requires 0 <= n <= 256 * kk, forall|k: int, j: int| 0 <= k < kk && 0 <= j < 256 ==> #[trigger] f(k, j) == g(k, j),
        ensures fn_count(f, n) == fn_count(g, n),
        decreases n
    {
        if n > 0 {
            lemma_fn_count_ext(f, g, n - 1, kk);
            let k = (n - 1) / 256; let j = (n - 1) % 256;
            assert(0 <= k < kk && 0 <= j < 256);
            assert(f(k, j) == g(k, j));
        }
    }
    // C09 / C11 for signing: same rho and K, same coefficient vectors ==> the same signatures satisfy sign_spec
    pub proof fn lemma_sign_spec_indep<const K: usize, const L: usize>(sig: Seq<u8>, ska: PrivateKey<K, L>, skb: PrivateKey<K, L>, eta: int,
            s1: Seq<Seq<int>>, s2: Seq<Seq<int>>, t0: Seq<Seq<int>>, mu: Seq<u8>, rnd: Seq<u8>, beta: int, gamma1: int, gamma2: int, omega: int, tau: int, lam4: int)
        requires sk_coefs_ok(ska, eta, s1, s2, t0), sk_coefs_ok(skb, eta, s1, s2, t0), ska.rho@ == skb.rho@, ska.cap_k@ == skb.cap_k@,
            sign_spec(sig, ska, mu, rnd, beta, gamma1, gamma2, omega, tau, lam4),
        ensures sign_spec(sig, skb, mu, rnd, beta, gamma1, gamma2, omega, tau, lam4),
    {
        lemma_sk_same_products(ska, skb, eta, s1, s2, t0);
        let rhopp = sign_rhopp(ska.cap_k@, rnd, mu);
        let (a, c, kappa) = choose|a: [[T; L]; K], c: R, kappa: int| #[trigger] sign_wit(ska, sig, tau, lam4, a, c, kappa)
            && sign_commit(a, mask_ys(rhopp, kappa, gamma1, L as int), mu, sig, gamma2, lam4)
            && sign_attempt(a, ska, mask_ys(rhopp, kappa, gamma1, L as int), c, sig, beta, gamma1, gamma2, omega, lam4)
            && all_rejected_before(a, ska, mu, rhopp, kappa, beta, gamma1, gamma2, omega, tau, lam4);
        let ys = mask_ys(rhopp, kappa, gamma1, L as int);
        let cs = poly_ints(c.0);
        assert(sign_wit(skb, sig, tau, lam4, a, c, kappa));
        assert(sign_attempt(a, skb, ys, c, sig, beta, gamma1, gamma2, omega, lam4)) by {
            assert(sign_attempt(a, ska, ys, c, sig, beta, gamma1, gamma2, omega, lam4));
            assert forall|l: int| 0 <= l < L implies #[trigger] cmul(cs, skb.s_1_hat_mont[l].0) == cmul(cs, ska.s_1_hat_mont[l].0) by { }
            assert forall|k: int| 0 <= k < K implies #[trigger] cmul(cs, skb.s_2_hat_mont[k].0) == cmul(cs, ska.s_2_hat_mont[k].0) by { }
            assert forall|k: int| 0 <= k < K implies #[trigger] cmul(cs, skb.t_0_hat_mont[k].0) == cmul(cs, ska.t_0_hat_mont[k].0) by { }
            let fa = sgn_hfn(a, ska, ys, cs, gamma2); let fb = sgn_hfn(a, skb, ys, cs, gamma2);
            assert forall|k: int, n: int| 0 <= k < K && 0 <= n < 256 implies #[trigger] fa(k, n) == fb(k, n) by {
                assert(cmul(cs, ska.s_2_hat_mont[k].0) == cmul(cs, skb.s_2_hat_mont[k].0));
                assert(cmul(cs, ska.t_0_hat_mont[k].0) == cmul(cs, skb.t_0_hat_mont[k].0));
            }
            lemma_fn_count_ext(fa, fb, 256 * K as int, K as int);
        }
        assert(all_rejected_before(a, skb, mu, rhopp, kappa, beta, gamma1, gamma2, omega, tau, lam4)) by {
            assert forall|kp: int| 0 <= kp < kappa && kp % (L as int) == 0 implies #[trigger] rejected_at(a, skb, mu, rhopp, kp, beta, gamma1, gamma2, omega, tau, lam4) by {
                assert(rejected_at(a, ska, mu, rhopp, kp, beta, gamma1, gamma2, omega, tau, lam4));
                let yk = mask_ys(rhopp, kp, gamma1, L as int);
                let (w1b, c2) = choose|w1b: Seq<u8>, c2: R| #[trigger] rej_wit(a, ska, mu, yk, w1b, c2, beta, gamma1, gamma2, omega, tau, lam4);
                lemma_attempt_rejected_indep(a, ska, skb, yk, c2, beta, gamma1, gamma2, omega);
                assert(rej_wit(a, skb, mu, yk, w1b, c2, beta, gamma1, gamma2, omega, tau, lam4));
            }
        }
    }
    // C09 / C11 for verification: same rho, tr irrelevant here (mu is given), same t1 ==> the same decisions satisfy verify_spec
    pub proof fn lemma_verify_spec_indep<const K: usize, const L: usize>(res: bool, pka: PublicKey<K, L>, pkb: PublicKey<K, L>, t1: Seq<Seq<int>>, mu: Seq<u8>, sig: Seq<u8>,
            beta: int, gamma1: int, gamma2: int, omega: int, tau: int, lam4: int)
        requires pk_coefs_ok(pka, t1), pk_coefs_ok(pkb, t1), pka.rho@ == pkb.rho@,
            verify_spec(res, pka, mu, sig, beta, gamma1, gamma2, omega, tau, lam4),
        ensures verify_spec(res, pkb, mu, sig, beta, gamma1, gamma2, omega, tau, lam4),
    {
        let canon = hint_canonical(sig_hint_bytes(sig, gamma1, lam4, L as int), omega, K as int);
        if canon {
            let (a, c) = choose|a: [[T; L]; K], c: R| #[trigger] verify_wit(pka, sig, tau, lam4, a, c)
                && res == (sig_z_norm_ok(sig, gamma1, beta, lam4, L as int) && verify_core(a, c, pka.t1_d2_hat_mont, mu, sig, gamma1, gamma2, omega, lam4));
            let zs = sig_zs(sig, gamma1, lam4, L as int); let cs = poly_ints(c.0);
            let fa = vfy_w1fn(a, c, pka.t1_d2_hat_mont, sig, gamma1, gamma2, omega, lam4);
            let fb = vfy_w1fn(a, c, pkb.t1_d2_hat_mont, sig, gamma1, gamma2, omega, lam4);
            assert forall|k: int| 0 <= k < K implies #[trigger] vfy_w(a, zs, cs, pka.t1_d2_hat_mont, k) == vfy_w(a, zs, cs, pkb.t1_d2_hat_mont, k) by {
                reveal(vfy_wbar);
                let va = vfy_wbar_seq(a, zs, cs, pka.t1_d2_hat_mont, k); let vb = vfy_wbar_seq(a, zs, cs, pkb.t1_d2_hat_mont, k);
                assert forall|n: int| 0 <= n < 256 implies cong(#[trigger] va[n], vb[n]) by {
                    let da = demont(pka.t1_d2_hat_mont[k].0[n] as int); let db = demont(pkb.t1_d2_hat_mont[k].0[n] as int);
                    let tgt = 8192 * spec_ntt(t1[k])[n];
                    lemma_cong_sym(db, tgt);
                    lemma_cong_trans(da, tgt, db);
                    let sc = spec_ntt(cs)[n];
                    lemma_cong_refl(sc);
                    lemma_cong_mul(sc, sc, da, db);
                    let dz = dotz(a, zs, k, n, L as int);
                    lemma_cong_refl(dz);
                    lemma_cong_add(dz, dz, sc * da, sc * db);
                }
                lemma_invntt_cong(va, vb);
            }
            assert forall|k: int, n: int| 0 <= k < K && 0 <= n < 256 implies #[trigger] fa(k, n) == fb(k, n) by {
                assert(vfy_w(a, zs, cs, pka.t1_d2_hat_mont, k) == vfy_w(a, zs, cs, pkb.t1_d2_hat_mont, k));
            }
            // verify_core over fa and over fb have the same witnesses
            if verify_core(a, c, pka.t1_d2_hat_mont, mu, sig, gamma1, gamma2, omega, lam4) {
                let w1b = choose|w1b: Seq<u8>| #[trigger] w1_fields_ok(w1b, gamma2, K as int, fa) && sig.subrange(0, lam4) == stream_take(shake256(mu + w1b), 0, lam4);
                assert(w1_fields_ok(w1b, gamma2, K as int, fb));
            }
            if verify_core(a, c, pkb.t1_d2_hat_mont, mu, sig, gamma1, gamma2, omega, lam4) {
                let w1b = choose|w1b: Seq<u8>| #[trigger] w1_fields_ok(w1b, gamma2, K as int, fb) && sig.subrange(0, lam4) == stream_take(shake256(mu + w1b), 0, lam4);
                assert(w1_fields_ok(w1b, gamma2, K as int, fa));
            }
            assert(verify_wit(pkb, sig, tau, lam4, a, c));
        }
    }
