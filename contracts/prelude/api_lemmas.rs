    // ---- listed properties as lemmas over the contracts of this parameter set's public API (trait-level postconditions only)
    // C01: a signature returned by try_sign_with_rng / try_hash_sign_with_rng (sign_with, sign_post) under a key pair returned by key
    // generation (kg_post) makes verify / hash_verify (verify_rel) return true, for every message, context of at most 255 bytes, mode and rnd
    pub proof fn lemma_c01_api(xi: Seq<u8>, pk: PublicKey, sk: PrivateKey, message: Seq<u8>, ctx: Seq<u8>, oid: Seq<u8>, phm: Seq<u8>, rnd: Seq<u8>,
            sig: [u8; SIG_LEN], res: bool)
        requires KG::kg_post(xi, pk, sk), sk.sign_with(message, ctx, oid, phm, rnd, sig), sk.sign_post(message, ctx, oid, phm, sig),
            pk.verify_rel(message, ctx, oid, phm, sig, res),
        ensures res,
    {
        lemma_params();
        let mu = spec_mu(sk.tr@, message, ctx, oid, phm, false);
        assert(pk.tr@ == sk.tr@);
        assert((BETA as int) == (TAU as int) * (ETA as int));
        lemma_c01(xi, ETA as int, pk, sk, sig@, mu, rnd, BETA as int, GAMMA1 as int, GAMMA2 as int, OMEGA as int, TAU as int, LAMBDA_DIV4 as int);
        lemma_verify_spec_det(res, true, pk, mu, sig@, BETA as int, GAMMA1 as int, GAMMA2 as int, OMEGA as int, TAU as int, LAMBDA_DIV4 as int);
    }
    // C09: deserialise-then-serialise returns the same bytes (every public-key byte string; every accepted private-key byte string)
    pub proof fn lemma_c09_pk_api(ba: [u8; PK_LEN], r: PublicKey, out: [u8; PK_LEN])
        requires PublicKey::sd_from_post(ba, &r), r.sd_into_post(out),
        ensures out@ == ba@,
    { }
    pub proof fn lemma_c09_sk_api(ba: [u8; SK_LEN], r: PrivateKey, out: [u8; SK_LEN])
        requires PrivateKey::sd_from_post(ba, &r), r.sd_into_post(out),
        ensures out@ == ba@,
    { }
    // C11: the public key derived from a generated private key serialises to the generated public key's bytes
    pub proof fn lemma_c11_api(xi: Seq<u8>, pk0: PublicKey, sk: PrivateKey, pk1: PublicKey, out0: [u8; PK_LEN], out1: [u8; PK_LEN])
        requires KG::kg_post(xi, pk0, sk), sk.pk_of_post(pk1), pk0.sd_into_post(out0), pk1.sd_into_post(out1),
        ensures out0@ == out1@,
    {
        lemma_params();
        lemma_derived_pk_same_bytes(xi, ETA as int, pk0, sk, pk1, out0@, out1@);
    }
    // C11: the derived public key makes the same verification decision as the generated one, on every input
    pub proof fn lemma_c11_behaviour_api(xi: Seq<u8>, pk0: PublicKey, sk: PrivateKey, pk1: PublicKey, message: Seq<u8>, ctx: Seq<u8>, oid: Seq<u8>, phm: Seq<u8>,
            sig: [u8; SIG_LEN], res: bool)
        requires KG::kg_post(xi, pk0, sk), sk.pk_of_post(pk1), pk0.verify_rel(message, ctx, oid, phm, sig, res),
        ensures pk1.verify_rel(message, ctx, oid, phm, sig, res),
    {
        lemma_params();
        let (a, s1, s2, pkb) = choose|a: [[T; L]; K], s1: [R; L], s2: [R; K], pkb: Seq<u8>| #[trigger] kg_wit(xi, ETA as int, pk0, sk, a, s1, s2, pkb);
        assert(kg_wit(xi, ETA as int, pk0, sk, a, s1, s2, pkb));
        let t1 = kg_t1(a, vec_ints(s1), vec_ints(s2));
        assert(sk_coefs_ok(sk, ETA as int, vec_ints(s1), vec_ints(s2), kg_t0(a, vec_ints(s1), vec_ints(s2))));
        assert(expand_a_rel(sk.rho@, a));
        assert(pk_coefs_ok(pk1, t1));
        let mu = spec_mu(pk0.tr@, message, ctx, oid, phm, false);
        lemma_verify_spec_indep(res, pk0, pk1, t1, mu, sig@, BETA as int, GAMMA1 as int, GAMMA2 as int, OMEGA as int, TAU as int, LAMBDA_DIV4 as int);
    }
    // C09: a generated public key reloaded from its serialisation makes the same verification decision on every input
    pub proof fn lemma_c09_pk_behaviour_api(xi: Seq<u8>, pk: PublicKey, sk: PrivateKey, ba: [u8; PK_LEN], pk2: PublicKey, message: Seq<u8>, ctx: Seq<u8>,
            oid: Seq<u8>, phm: Seq<u8>, sig: [u8; SIG_LEN], res: bool)
        requires KG::kg_post(xi, pk, sk), pk.sd_into_post(ba), PublicKey::sd_from_post(ba, &pk2), pk.verify_rel(message, ctx, oid, phm, sig, res),
        ensures pk2.verify_rel(message, ctx, oid, phm, sig, res),
    {
        lemma_params();
        let (a, s1, s2, pkb) = choose|a: [[T; L]; K], s1: [R; L], s2: [R; K], pkb: Seq<u8>| #[trigger] kg_wit(xi, ETA as int, pk, sk, a, s1, s2, pkb);
        assert(kg_wit(xi, ETA as int, pk, sk, a, s1, s2, pkb));
        let t1 = kg_t1(a, vec_ints(s1), vec_ints(s2));
        assert(pk_coefs_ok(pk, t1));
        assert forall|i: int, j: int| 0 <= i < K && 0 <= j < 256 implies #[trigger] field(pk_t1_bytes(ba@, i), 10, j) == field(pk_t1_bytes(pkb, i), 10, j) by {
            assert(field(pk_t1_bytes(ba@, i), 10, j) == t1[i][j]);
        }
        lemma_pk_bytes_unique(ba@, pkb, K as int);
        assert(pk2.tr@ == pk.tr@);
        lemma_pk_rel_coefs(pk2, ba@);
        let t1b = pk_t1_vec(ba@, K as int);
        assert(t1b =~= t1) by {
            assert forall|i: int| 0 <= i < K implies #[trigger] t1b[i] == t1[i] by { assert(t1b[i] =~= t1[i]); }
        }
        let mu = spec_mu(pk.tr@, message, ctx, oid, phm, false);
        lemma_verify_spec_indep(res, pk, pk2, t1, mu, sig@, BETA as int, GAMMA1 as int, GAMMA2 as int, OMEGA as int, TAU as int, LAMBDA_DIV4 as int);
    }
    // C09: a private key reloaded from its serialisation returns the same signatures for the same randomness
    pub proof fn lemma_c09_sk_behaviour_api(sk: PrivateKey, ba: [u8; SK_LEN], sk2: PrivateKey, message: Seq<u8>, ctx: Seq<u8>, oid: Seq<u8>, phm: Seq<u8>,
            rnd: Seq<u8>, sig: [u8; SIG_LEN])
        requires sk.sd_inv(), sk.sd_into_post(ba), PrivateKey::sd_from_post(ba, &sk2), sk.sign_with(message, ctx, oid, phm, rnd, sig),
        ensures sk2.sign_with(message, ctx, oid, phm, rnd, sig),
    {
        lemma_params(); lemma_bitlen_consts();
        let e = ETA as int;
        let (s1, s2, t0) = choose|s1: Seq<Seq<int>>, s2: Seq<Seq<int>>, t0: Seq<Seq<int>>| #[trigger] sk_coefs_ok(sk, e, s1, s2, t0);
        assert(sk_coefs_ok(sk, e, s1, s2, t0));
        assert(sk_vecs_are(ba@, e, K as int, L as int, s1, s2, t0));
        let v1 = sk_s1_vec(ba@, e, L as int); let v2 = sk_s2_vec(ba@, e, K as int, L as int); let v0 = sk_t0_vec(ba@, e, K as int, L as int);
        assert(spec_bitlen(e + e) == spec_bitlen(2 * e));
        assert(spec_bitlen(4095int + 4096int) == 13);
        assert(v1 =~= s1) by { assert forall|i: int| 0 <= i < L implies #[trigger] v1[i] == s1[i] by { assert(v1[i] =~= s1[i]); } }
        assert(v2 =~= s2) by { assert forall|i: int| 0 <= i < K implies #[trigger] v2[i] == s2[i] by { assert(v2[i] =~= s2[i]); } }
        assert(v0 =~= t0) by { assert forall|i: int| 0 <= i < K implies #[trigger] v0[i] == t0[i] by { assert(v0[i] =~= t0[i]); } }
        assert(sk_coefs_ok(sk2, e, s1, s2, t0));
        let mu = spec_mu(sk.tr@, message, ctx, oid, phm, false);
        assert(sk2.tr@ == sk.tr@);
        lemma_sign_spec_indep(sig@, sk, sk2, e, s1, s2, t0, mu, rnd, BETA as int, GAMMA1 as int, GAMMA2 as int, OMEGA as int, TAU as int, LAMBDA_DIV4 as int);
    }
    // C04: key generation is a function of the seed: two key pairs satisfying the key-generation postcondition for the same seed serialise
    // to the same public-key and private-key bytes (the FIPS 204 pkEncode / skEncode outputs of KeyGen_internal(xi))
    pub proof fn lemma_c04_det_api(xi: Seq<u8>, pk: PublicKey, sk: PrivateKey, pk2: PublicKey, sk2: PrivateKey,
            bpk: [u8; PK_LEN], bpk2: [u8; PK_LEN], bsk: [u8; SK_LEN], bsk2: [u8; SK_LEN])
        requires KG::kg_post(xi, pk, sk), KG::kg_post(xi, pk2, sk2), pk.sd_into_post(bpk), pk2.sd_into_post(bpk2), sk.sd_into_post(bsk), sk2.sd_into_post(bsk2),
        ensures bpk@ == bpk2@, bsk@ == bsk2@,
    {
        lemma_params(); lemma_bitlen_consts();
        let e = ETA as int;
        let (a, s1, s2, pkb) = choose|a: [[T; L]; K], s1: [R; L], s2: [R; K], pkb: Seq<u8>| #[trigger] kg_wit(xi, e, pk, sk, a, s1, s2, pkb);
        let (b, r1, r2, pkc) = choose|a: [[T; L]; K], s1: [R; L], s2: [R; K], pkb: Seq<u8>| #[trigger] kg_wit(xi, e, pk2, sk2, a, s1, s2, pkb);
        assert(kg_wit(xi, e, pk, sk, a, s1, s2, pkb) && kg_wit(xi, e, pk2, sk2, b, r1, r2, pkc));
        lemma_expand_a_unique(pk.rho@, a, b);
        let st = shake256(keygen_seed_input(xi, K as int, L as int));
        lemma_expand_s_unique(stream_take(st, 32, 64), e, s1, s2, r1, r2);
        let t1 = kg_t1(a, vec_ints(s1), vec_ints(s2)); let t0 = kg_t0(a, vec_ints(s1), vec_ints(s2));
        // public key bytes
        assert forall|i: int, j: int| 0 <= i < K && 0 <= j < 256 implies #[trigger] field(pk_t1_bytes(pkb, i), 10, j) == field(pk_t1_bytes(pkc, i), 10, j) by {
            assert(field(pk_t1_bytes(pkb, i), 10, j) == t1[i][j]);
        }
        lemma_pk_bytes_unique(pkb, pkc, K as int);
        assert(pk.tr@ == pk2.tr@);
        assert forall|i: int, j: int| 0 <= i < K && 0 <= j < 256 implies #[trigger] field(pk_t1_bytes(bpk@, i), 10, j) == field(pk_t1_bytes(bpk2@, i), 10, j) by {
            assert(field(pk_t1_bytes(bpk@, i), 10, j) == t1[i][j]);
            assert(field(pk_t1_bytes(bpk2@, i), 10, j) == t1[i][j]);
        }
        lemma_pk_bytes_unique(bpk@, bpk2@, K as int);
        // private key bytes
        assert(sk_vecs_are(bsk@, e, K as int, L as int, vec_ints(s1), vec_ints(s2), t0));
        assert(sk_vecs_are(bsk2@, e, K as int, L as int, vec_ints(s1), vec_ints(s2), t0));
        lemma_sk_bytes_unique(bsk@, bsk2@, e, K as int, L as int);
    }
    // C02: the verification decision is a function of the public-key BYTES, the formatted message and the signature: two structs deserialised
    // from (related to) the same byte string give the same result
    pub proof fn lemma_c02_fn_of_bytes_api(pkb: [u8; PK_LEN], pk: PublicKey, pk2: PublicKey, message: Seq<u8>, ctx: Seq<u8>, oid: Seq<u8>, phm: Seq<u8>,
            sig: [u8; SIG_LEN], res: bool, res2: bool)
        requires PublicKey::sd_from_post(pkb, &pk), PublicKey::sd_from_post(pkb, &pk2),
            pk.verify_rel(message, ctx, oid, phm, sig, res), pk2.verify_rel(message, ctx, oid, phm, sig, res2),
        ensures res == res2,
    {
        lemma_params();
        lemma_pk_rel_coefs(pk, pkb@); lemma_pk_rel_coefs(pk2, pkb@);
        let mu = spec_mu(pk.tr@, message, ctx, oid, phm, false);
        assert(pk.tr@ == pk2.tr@);
        lemma_verify_spec_indep(res, pk, pk2, pk_t1_vec(pkb@, K as int), mu, sig@, BETA as int, GAMMA1 as int, GAMMA2 as int, OMEGA as int, TAU as int, LAMBDA_DIV4 as int);
        lemma_verify_spec_det(res, res2, pk2, mu, sig@, BETA as int, GAMMA1 as int, GAMMA2 as int, OMEGA as int, TAU as int, LAMBDA_DIV4 as int);
    }
    // C03: the signature is a function of (private key, message, context, mode, rnd): two signatures satisfying the signing postconditions
    // for the same inputs and randomness are byte-identical
    pub proof fn lemma_c03_det_api(sk: PrivateKey, message: Seq<u8>, ctx: Seq<u8>, oid: Seq<u8>, phm: Seq<u8>, rnd: Seq<u8>, sig1: [u8; SIG_LEN], sig2: [u8; SIG_LEN])
        requires sk.sign_with(message, ctx, oid, phm, rnd, sig1), sk.sign_post(message, ctx, oid, phm, sig1),
            sk.sign_with(message, ctx, oid, phm, rnd, sig2), sk.sign_post(message, ctx, oid, phm, sig2),
        ensures sig1@ == sig2@,
    {
        lemma_params();
        let mu = spec_mu(sk.tr@, message, ctx, oid, phm, false);
        lemma_sign_spec_det(sig1@, sig2@, sk, mu, rnd, BETA as int, GAMMA1 as int, GAMMA2 as int, OMEGA as int, TAU as int, LAMBDA_DIV4 as int);
    }
