    // ---- listed properties as lemmas over the contracts of this parameter set's public API (trait-level postconditions only)
    // C01: a signature returned by try_sign_with_rng / try_hash_sign_with_rng (sign_with, sign_post) under a key pair returned by key
    // generation (kg_post) makes verify / hash_verify (verify_rel) return true, for every message, context of at most 255 bytes, mode and rnd
    pub proof fn lemma_c01_api(xi: Seq<u8>, pk: PublicKey, sk: PrivateKey, message: Seq<u8>, ctx: Seq<u8>, oid: Seq<u8>, phm: Seq<u8>, rnd: Seq<u8>,
            sig: [u8; SIG_LEN], res: bool)
        requires KG::kg_post(xi, pk, sk), sk.sign_with(message, ctx, oid, phm, rnd, sig), sk.sign_post(message, ctx, oid, phm, sig),
            pk.verify_rel(message, ctx, oid, phm, sig, res),
        ensures res,
    {
        lemma_params();
        let mu = spec_mu(sk.tr@, message, ctx, oid, phm, false);
        assert(pk.tr@ == sk.tr@);
        assert((BETA as int) == (TAU as int) * (ETA as int));
        lemma_c01(xi, ETA as int, pk, sk, sig@, mu, rnd, BETA as int, GAMMA1 as int, GAMMA2 as int, OMEGA as int, TAU as int, LAMBDA_DIV4 as int);
        lemma_verify_spec_det(res, true, pk, mu, sig@, BETA as int, GAMMA1 as int, GAMMA2 as int, OMEGA as int, TAU as int, LAMBDA_DIV4 as int);
    }
    // C09: deserialise-then-serialise returns the same bytes (every public-key byte string; every accepted private-key byte string)
    pub proof fn lemma_c09_pk_api(ba: [u8; PK_LEN], r: PublicKey, out: [u8; PK_LEN])
        requires PublicKey::sd_from_post(ba, &r), r.sd_into_post(out),
        ensures out@ == ba@,
    { }
    pub proof fn lemma_c09_sk_api(ba: [u8; SK_LEN], r: PrivateKey, out: [u8; SK_LEN])
        requires PrivateKey::sd_from_post(ba, &r), r.sd_into_post(out),
        ensures out@ == ba@,
    { }
    // C11: the public key derived from a generated private key serialises to the generated public key's bytes
    pub proof fn lemma_c11_api(xi: Seq<u8>, pk0: PublicKey, sk: PrivateKey, pk1: PublicKey, out0: [u8; PK_LEN], out1: [u8; PK_LEN])
        requires KG::kg_post(xi, pk0, sk), sk.pk_of_post(pk1), pk0.sd_into_post(out0), pk1.sd_into_post(out1),
        ensures out0@ == out1@,
    {
        lemma_params();
        lemma_derived_pk_same_bytes(xi, ETA as int, pk0, sk, pk1, out0@, out1@);
    }
