    // ---- the relational sampler specifications are functional: the stream determines the sampled object
    pub proof fn lemma_rej3_cnt_mono(s: spec_fn(int) -> u8, a: int, b: int)
        requires 0 <= a <= b,
        ensures rej3_cnt(s, a) <= rej3_cnt(s, b),
        decreases b - a
    {
        if a < b { lemma_rej3_cnt_mono(s, a, b - 1); }
    }
    pub proof fn lemma_rej_ntt_unique(s: spec_fn(int) -> u8, a: T, b: T)
        requires rej_ntt_rel(s, a), rej_ntt_rel(s, b),
        ensures a == b,
    {
        let wa = choose|wit: Seq<int>| wit.len() == 256 && forall|j: int| 0 <= j < 256 ==> #[trigger] rej_ntt_at(s, a, j, wit[j]);
        let wb = choose|wit: Seq<int>| wit.len() == 256 && forall|j: int| 0 <= j < 256 ==> #[trigger] rej_ntt_at(s, b, j, wit[j]);
        assert forall|j: int| 0 <= j < 256 implies a.0[j] == b.0[j] by {
            assert(rej_ntt_at(s, a, j, wa[j])); assert(rej_ntt_at(s, b, j, wb[j]));
            let ka = wa[j]; let kb = wb[j];
            if ka < kb { lemma_rej3_cnt_mono(s, ka + 1, kb); assert(rej3_cnt(s, ka + 1) == rej3_cnt(s, ka) + 1); }
            if kb < ka { lemma_rej3_cnt_mono(s, kb + 1, ka); assert(rej3_cnt(s, kb + 1) == rej3_cnt(s, kb) + 1); }
            assert(ka == kb);
        }
        assert(a.0 =~= b.0);
    }
    pub proof fn lemma_expand_a_unique<const K: usize, const L: usize>(rho: Seq<u8>, a: [[T; L]; K], b: [[T; L]; K])
        requires expand_a_rel(rho, a), expand_a_rel(rho, b),
        ensures a == b,
    {
        assert forall|r: int| 0 <= r < K implies a[r] == b[r] by {
            assert(expand_a_row_ok(rho, r, a[r])); assert(expand_a_row_ok(rho, r, b[r]));
            assert forall|s: int| 0 <= s < L implies a[r][s] == b[r][s] by {
                let sd = expand_a_seed(rho, s, r);
                assert(rej_ntt_rel(shake128(sd), a[r][s])); assert(rej_ntt_rel(shake128(sd), b[r][s]));
                lemma_rej_ntt_unique(shake128(sd), a[r][s], b[r][s]);
            }
            assert(a[r] =~= b[r]);
        }
        assert(a =~= b);
    }
    pub proof fn lemma_rejh_cnt_mono(s: spec_fn(int) -> u8, eta: int, a: int, b: int)
        requires 0 <= a <= b,
        ensures rejh_cnt(s, eta, a) <= rejh_cnt(s, eta, b),
        decreases b - a
    {
        if a < b { lemma_rejh_cnt_mono(s, eta, a, b - 1); }
    }
    pub proof fn lemma_rej_bnd_unique(s: spec_fn(int) -> u8, eta: int, a: R, b: R)
        requires rej_bnd_rel(s, eta, a), rej_bnd_rel(s, eta, b),
        ensures a == b,
    {
        let wa = choose|wit: Seq<int>| wit.len() == 256 && forall|j: int| 0 <= j < 256 ==> #[trigger] rej_bnd_at(s, eta, a, j, wit[j]);
        let wb = choose|wit: Seq<int>| wit.len() == 256 && forall|j: int| 0 <= j < 256 ==> #[trigger] rej_bnd_at(s, eta, b, j, wit[j]);
        assert forall|j: int| 0 <= j < 256 implies a.0[j] == b.0[j] by {
            assert(rej_bnd_at(s, eta, a, j, wa[j])); assert(rej_bnd_at(s, eta, b, j, wb[j]));
            let ka = wa[j]; let kb = wb[j];
            if ka < kb { lemma_rejh_cnt_mono(s, eta, ka + 1, kb); assert(rejh_cnt(s, eta, ka + 1) == rejh_cnt(s, eta, ka) + 1); }
            if kb < ka { lemma_rejh_cnt_mono(s, eta, kb + 1, ka); assert(rejh_cnt(s, eta, kb + 1) == rejh_cnt(s, eta, kb) + 1); }
            assert(ka == kb);
        }
        assert(a.0 =~= b.0);
    }
    pub proof fn lemma_expand_s_unique<const K: usize, const L: usize>(rho: Seq<u8>, eta: int, a1: [R; L], a2: [R; K], b1: [R; L], b2: [R; K])
        requires expand_s_rel(rho, eta, a1, a2), expand_s_rel(rho, eta, b1, b2),
        ensures a1 == b1, a2 == b2,
    {
        assert forall|r: int| 0 <= r < L implies a1[r] == b1[r] by {
            let sd = expand_s_seed(rho, r);
            assert(rej_bnd_rel(shake256(sd), eta, a1[r])); assert(rej_bnd_rel(shake256(sd), eta, b1[r]));
            lemma_rej_bnd_unique(shake256(sd), eta, a1[r], b1[r]);
        }
        assert forall|r: int| 0 <= r < K implies a2[r] == b2[r] by {
            let sd = expand_s_seed(rho, r + L);
            assert(rej_bnd_rel(shake256(sd), eta, a2[r])); assert(rej_bnd_rel(shake256(sd), eta, b2[r]));
            lemma_rej_bnd_unique(shake256(sd), eta, a2[r], b2[r]);
        }
        assert(a1 =~= b1); assert(a2 =~= b2);
    }
    // SampleInBall: the accepted stream positions, hence the challenge polynomial, are determined by the stream
    pub proof fn lemma_sib_wit_unique(s: spec_fn(int) -> u8, w1: Seq<int>, w2: Seq<int>, tau: int, t: int)
        requires 0 <= t <= tau, w1.len() == tau, w2.len() == tau,
            forall|u: int| 0 <= u < tau ==> #[trigger] sib_step_ok(s, w1, tau, u),
            forall|u: int| 0 <= u < tau ==> #[trigger] sib_step_ok(s, w2, tau, u),
        ensures forall|u: int| 0 <= u < t ==> w1[u] == w2[u],
        decreases t
    {
        if t > 0 {
            lemma_sib_wit_unique(s, w1, w2, tau, t - 1);
            let u = t - 1;
            assert(sib_step_ok(s, w1, tau, u)); assert(sib_step_ok(s, w2, tau, u));
            if u > 0 { assert(w1[u - 1] == w2[u - 1]); }
            let i = 256 - tau + u;
            let lo = if u == 0 { 8 } else { w1[u - 1] + 1 };
            // both are >= lo, have a byte <= i, and every earlier byte from lo on is > i
            if w1[u] < w2[u] { assert((s(w1[u]) as int) > i); }
            if w2[u] < w1[u] { assert((s(w2[u]) as int) > i); }
        }
    }
    pub proof fn lemma_sib_unique(tau: int, s: spec_fn(int) -> u8, c1: R, c2: R)
        requires tau >= 0, sib_rel(tau, s, c1), sib_rel(tau, s, c2),
        ensures c1 == c2,
    {
        let w1 = choose|wit: Seq<int>| wit.len() == tau && (forall|t: int| 0 <= t < tau ==> #[trigger] sib_step_ok(s, wit, tau, t)) && c1.0@ == sib_fold(s, wit, tau, tau);
        let w2 = choose|wit: Seq<int>| wit.len() == tau && (forall|t: int| 0 <= t < tau ==> #[trigger] sib_step_ok(s, wit, tau, t)) && c2.0@ == sib_fold(s, wit, tau, tau);
        lemma_sib_wit_unique(s, w1, w2, tau, tau);
        lemma_sib_fold_prefix(s, w1, w2, tau, tau);
        assert(c1.0@ == c2.0@);
        assert(c1.0 =~= c2.0);
    }
    // ---- C11 as a lemma over the contracts: the public key derived from a generated private key serialises to the generated public key's bytes
    // (out0 / out1 are what PublicKey::into_bytes's postcondition says about the two keys)
    pub proof fn lemma_derived_pk_same_bytes<const K: usize, const L: usize>(xi: Seq<u8>, eta: int, pk0: PublicKey<K, L>, sk: PrivateKey<K, L>, pk1: PublicKey<K, L>,
            out0: Seq<u8>, out1: Seq<u8>)
        requires eta_ok(eta), 1 <= K <= 8, keygen_spec(xi, eta, pk0, sk),
            // get_public_key's postcondition for pk1
            pk1.rho@ == sk.rho@,
            forall|e: int, a1: Seq<Seq<int>>, a2: Seq<Seq<int>>, a0: Seq<Seq<int>>, a: [[T; L]; K]|
                #![trigger sk_coefs_ok(sk, e, a1, a2, a0), expand_a_rel(sk.rho@, a)]
                eta_ok(e) && sk_coefs_ok(sk, e, a1, a2, a0) && expand_a_rel(sk.rho@, a) ==> pk_coefs_ok(pk1, kg_t1(a, a1, a2)),
            // into_bytes's postcondition for both keys
            out0.len() == 32 + 320 * K, out1.len() == 32 + 320 * K, out0.subrange(0, 32) == pk0.rho@, out1.subrange(0, 32) == pk1.rho@,
            forall|t1: Seq<Seq<int>>| #[trigger] pk_coefs_ok(pk0, t1) ==> forall|i: int, j: int| 0 <= i < K && 0 <= j < 256 ==> #[trigger] field(pk_t1_bytes(out0, i), 10, j) == t1[i][j],
            forall|t1: Seq<Seq<int>>| #[trigger] pk_coefs_ok(pk1, t1) ==> forall|i: int, j: int| 0 <= i < K && 0 <= j < 256 ==> #[trigger] field(pk_t1_bytes(out1, i), 10, j) == t1[i][j],
        ensures out0 == out1,
    {
        let (a, s1, s2, pkb) = choose|a: [[T; L]; K], s1: [R; L], s2: [R; K], pkb: Seq<u8>| #[trigger] kg_wit(xi, eta, pk0, sk, a, s1, s2, pkb);
        assert(kg_wit(xi, eta, pk0, sk, a, s1, s2, pkb));
        let t1 = kg_t1(a, vec_ints(s1), vec_ints(s2));
        assert(pk_coefs_ok(pk0, t1));
        assert(sk_coefs_ok(sk, eta, vec_ints(s1), vec_ints(s2), kg_t0(a, vec_ints(s1), vec_ints(s2))));
        assert(expand_a_rel(sk.rho@, a));
        assert(pk_coefs_ok(pk1, t1));
        assert forall|i: int, j: int| 0 <= i < K && 0 <= j < 256 implies #[trigger] field(pk_t1_bytes(out0, i), 10, j) == field(pk_t1_bytes(out1, i), 10, j) by {
            assert(field(pk_t1_bytes(out0, i), 10, j) == t1[i][j]);
            assert(field(pk_t1_bytes(out1, i), 10, j) == t1[i][j]);
        }
        lemma_pk_bytes_unique(out0, out1, K as int);
    }
    // ---- C06: the formatted message M' determines (mode, ctx, M) resp. (mode, ctx, OID, PH(M)) for contexts of at most 255 bytes
    pub proof fn lemma_mprime_injective(m: Seq<u8>, ctx: Seq<u8>, oid: Seq<u8>, phm: Seq<u8>, m2: Seq<u8>, ctx2: Seq<u8>, oid2: Seq<u8>, phm2: Seq<u8>)
        requires ctx.len() <= 255, ctx2.len() <= 255, oid.len() == 0 || oid.len() == 11, oid2.len() == 0 || oid2.len() == 11,
            mprime(m, ctx, oid, phm, false) == mprime(m2, ctx2, oid2, phm2, false),
        ensures ctx == ctx2, oid == oid2, oid.len() == 0 ==> m == m2, oid.len() > 0 ==> phm == phm2,
    {
        let a = mprime(m, ctx, oid, phm, false); let b = mprime(m2, ctx2, oid2, phm2, false);
        let n = ctx.len() as int; let n2 = ctx2.len() as int;
        // domain separator byte: same mode
        assert(a[0] == (if oid.len() == 0 { 0u8 } else { 1u8 }));
        assert(b[0] == (if oid2.len() == 0 { 0u8 } else { 1u8 }));
        assert((oid.len() == 0) == (oid2.len() == 0));
        // length byte: same context length (no reduction mod 256 for lengths <= 255)
        assert(a[1] == n as u8 && b[1] == n2 as u8);
        assert(n == n2);
        assert forall|i: int| 0 <= i < n implies ctx[i] == ctx2[i] by { assert(a[2 + i] == ctx[i]); assert(b[2 + i] == ctx2[i]); }
        assert(ctx =~= ctx2);
        if oid.len() == 0 {
            assert(oid =~= oid2);
            assert(a.len() == 2 + n + m.len() && b.len() == 2 + n + m2.len());
            assert forall|i: int| 0 <= i < m.len() implies m[i] == m2[i] by { assert(a[2 + n + i] == m[i]); assert(b[2 + n + i] == m2[i]); }
            assert(m =~= m2);
        } else {
            assert forall|i: int| 0 <= i < 11 implies oid[i] == oid2[i] by { assert(a[2 + n + i] == oid[i]); assert(b[2 + n + i] == oid2[i]); }
            assert(oid =~= oid2);
            assert(a.len() == 2 + n + 11 + phm.len() && b.len() == 2 + n + 11 + phm2.len());
            assert forall|i: int| 0 <= i < phm.len() implies phm[i] == phm2[i] by { assert(a[2 + n + 11 + i] == phm[i]); assert(b[2 + n + 11 + i] == phm2[i]); }
            assert(phm =~= phm2);
        }
    }
    pub proof fn lemma_oid_injective(p1: Ph, p2: Ph)
        requires spec_oid(p1) == spec_oid(p2),
        ensures p1 == p2,
    {
        assert(spec_oid(p1)[10] == spec_oid(p2)[10]);
    }
