    // ---- C01 (completeness): FIPS 204's own correctness argument over the proved specifications.
    // (a) scalar facts about Algorithms 36-40
    pub open spec fn dec_form(g: int, al: int, m: int, rp: int) -> (int, int) {
        let a = rp / al; let b = rp % al;
        if b <= g { if a == m { (0int, b - 1) } else { (a, b) } } else if a + 1 == m { (0int, b - al - 1) } else { (a + 1, b - al) }
    }
    pub proof fn lemma_dec_form_a(rp: int)
        requires 0 <= rp < Q,
        ensures spec_decompose(95_232, rp) == dec_form(95_232, 190_464, 44, rp), 0 <= rp / 190_464 <= 44, 0 <= rp % 190_464 < 190_464,
            rp == 190_464 * (rp / 190_464) + rp % 190_464,
    {
        assert(rp % (Q as int) == rp);
        let b = rp % 190_464; let a = rp / 190_464;
        if b <= 95_232 { assert((rp - b) / 190_464 == a); }
        else { assert((rp - (b - 190_464)) / 190_464 == a + 1); }
    }
    pub proof fn lemma_dec_form_b(rp: int)
        requires 0 <= rp < Q,
        ensures spec_decompose(261_888, rp) == dec_form(261_888, 523_776, 16, rp), 0 <= rp / 523_776 <= 16, 0 <= rp % 523_776 < 523_776,
            rp == 523_776 * (rp / 523_776) + rp % 523_776,
    {
        assert(rp % (Q as int) == rp);
        let b = rp % 523_776; let a = rp / 523_776;
        if b <= 261_888 { assert((rp - b) / 523_776 == a); }
        else { assert((rp - (b - 523_776)) / 523_776 == a + 1); }
    }
    pub open spec fn wrapq(x: int) -> int { if x < 0 { x + Q } else if x >= Q { x - Q } else { x } }
    // UseHint(MakeHint(z, r), r) == HighBits(r + z) when |z| <= gamma2  (rp = r mod q, zeta = z mod+- q)
    pub proof fn lemma_use_make_hint(g: int, rp: int, zeta: int)
        requires gamma2_ok(g), 0 <= rp < Q, -g <= zeta <= g,
        ensures ({ let vp = wrapq(rp + zeta);
                   spec_use_hint(g, if spec_high_bits(g, rp) != spec_high_bits(g, vp) { 1int } else { 0int }, rp) == spec_high_bits(g, vp) }),
    {
        let vp = wrapq(rp + zeta);
        if g == 95_232 {
            lemma_dec_form_a(rp); lemma_dec_form_a(vp);
            assert((Q - 1) / (2 * 95_232int) == 44) by { assert(8_380_416int / 190_464int == 44) by (compute); }
        } else {
            lemma_dec_form_b(rp); lemma_dec_form_b(vp);
            assert((Q - 1) / (2 * 261_888int) == 16) by { assert(8_380_416int / 523_776int == 16) by (compute); }
        }
    }
    // HighBits(r) == HighBits(r + s) when |s| <= beta and |LowBits(r)| < gamma2 - beta
    pub proof fn lemma_high_bits_stable(g: int, vp: int, eps: int, beta: int)
        requires gamma2_ok(g), 0 <= vp < Q, 0 <= beta < g, -beta <= eps <= beta, spec_abs(spec_low_bits(g, vp)) < g - beta,
        ensures spec_high_bits(g, wrapq(vp + eps)) == spec_high_bits(g, vp),
    {
        if g == 95_232 { lemma_dec_form_a(vp); lemma_dec_form_a(wrapq(vp + eps)); }
        else { lemma_dec_form_b(vp); lemma_dec_form_b(wrapq(vp + eps)); }
    }
    // (b) Algorithm 41 is linear and only depends on residues (through the evaluation view)
    pub proof fn lemma_sev_coef_cong(x: Seq<int>, y: Seq<int>, n: int, r: int)
        requires 0 <= n <= 256, forall|t: int| 0 <= t < 256 ==> cong(#[trigger] x[t], y[t]),
        ensures cong(sev(x, 0, 1, n, r), sev(y, 0, 1, n, r)),
        decreases n
    {
        if n == 0 { lemma_cong_refl(0); } else {
            lemma_sev_coef_cong(x, y, n - 1, r);
            let t = n - 1;
            assert(0 + t * 1 == t);
            lemma_cong_refl(ipow(r, t));
            lemma_cong_mul(x[t], y[t], ipow(r, t), ipow(r, t));
            lemma_cong_add(sev(x, 0, 1, n - 1, r), sev(y, 0, 1, n - 1, r), x[t] * ipow(r, t), y[t] * ipow(r, t));
        }
    }
    pub proof fn lemma_ntt_coef_cong(x: Seq<int>, y: Seq<int>, j: int)
        requires x.len() == 256, y.len() == 256, 0 <= j < 256, forall|t: int| 0 <= t < 256 ==> cong(#[trigger] x[t], y[t]),
        ensures cong(spec_ntt(x)[j], spec_ntt(y)[j]),
    {
        lemma_ntt_is_eval(x, j); lemma_ntt_is_eval(y, j);
        lemma_sev_coef_cong(x, y, 256, ntt_root(j));
        lemma_cong_trans(spec_ntt(x)[j], peval(x, ntt_root(j)), peval(y, ntt_root(j)));
        lemma_cong_sym(spec_ntt(y)[j], peval(y, ntt_root(j)));
        lemma_cong_trans(spec_ntt(x)[j], peval(y, ntt_root(j)), spec_ntt(y)[j]);
    }
    // NTT(x + y - z)[j] == NTT(x)[j] + NTT(y)[j] - NTT(z)[j]  (mod q), for p given pointwise up to congruence
    pub proof fn lemma_ntt_lin3(p: Seq<int>, x: Seq<int>, y: Seq<int>, z: Seq<int>, j: int)
        requires p.len() == 256, x.len() == 256, y.len() == 256, z.len() == 256, 0 <= j < 256,
            forall|t: int| 0 <= t < 256 ==> cong(#[trigger] p[t], x[t] + y[t] - z[t]),
        ensures cong(spec_ntt(p)[j], spec_ntt(x)[j] + spec_ntt(y)[j] - spec_ntt(z)[j]),
    {
        let r = ntt_root(j);
        let s = padd(padd(x, y), pscale(-1, z));
        assert forall|t: int| 0 <= t < 256 implies cong(#[trigger] p[t], s[t]) by { assert(s[t] == x[t] + y[t] + (-1) * z[t]); }
        lemma_ntt_coef_cong(p, s, j);
        lemma_ntt_is_eval(s, j); lemma_ntt_is_eval(x, j); lemma_ntt_is_eval(y, j); lemma_ntt_is_eval(z, j);
        lemma_sev1_add(padd(x, y), pscale(-1, z), 256, r);
        lemma_sev1_add(x, y, 256, r);
        lemma_sev1_scale(-1, z, 256, r);
        assert(peval(s, r) == peval(x, r) + peval(y, r) + (-1) * peval(z, r));
        lemma_cong_add(spec_ntt(x)[j], peval(x, r), spec_ntt(y)[j], peval(y, r));
        lemma_cong_add(spec_ntt(x)[j] + spec_ntt(y)[j], peval(x, r) + peval(y, r), spec_ntt(z)[j], peval(z, r));
        lemma_cong_sym(spec_ntt(x)[j] + spec_ntt(y)[j] - spec_ntt(z)[j], peval(x, r) + peval(y, r) - peval(z, r));
        lemma_cong_trans(spec_ntt(p)[j], spec_ntt(s)[j], peval(s, r));
        lemma_cong_trans(spec_ntt(p)[j], peval(s, r), spec_ntt(x)[j] + spec_ntt(y)[j] - spec_ntt(z)[j]);
    }
    pub proof fn lemma_ntt_scale(c: int, p: Seq<int>, x: Seq<int>, j: int)
        requires p.len() == 256, x.len() == 256, 0 <= j < 256, forall|t: int| 0 <= t < 256 ==> cong(#[trigger] p[t], c * x[t]),
        ensures cong(spec_ntt(p)[j], c * spec_ntt(x)[j]),
    {
        let r = ntt_root(j);
        let s = pscale(c, x);
        assert forall|t: int| 0 <= t < 256 implies cong(#[trigger] p[t], s[t]) by { }
        lemma_ntt_coef_cong(p, s, j);
        lemma_ntt_is_eval(s, j); lemma_ntt_is_eval(x, j);
        lemma_sev1_scale(c, x, 256, r);
        lemma_cong_refl(c);
        lemma_cong_mul(c, c, spec_ntt(x)[j], peval(x, r));
        lemma_cong_sym(c * spec_ntt(x)[j], c * peval(x, r));
        lemma_cong_trans(spec_ntt(p)[j], spec_ntt(s)[j], peval(s, r));
        lemma_cong_trans(spec_ntt(p)[j], c * peval(x, r), c * spec_ntt(x)[j]);
    }
    // (c) ||c * s||inf <= tau * eta for a challenge with tau coefficients +-1: the bound the signer never checks
    pub proof fn lemma_xshift_n_bound(b: Seq<int>, i: int, eta: int)
        requires b.len() == 256, i >= 0, forall|n: int| 0 <= n < 256 ==> -eta <= #[trigger] b[n] <= eta,
        ensures xshift_n(b, i).len() == 256, forall|n: int| 0 <= n < 256 ==> -eta <= #[trigger] xshift_n(b, i)[n] <= eta,
        decreases i
    {
        if i > 0 {
            lemma_xshift_n_bound(b, i - 1, eta);
            let y = xshift_n(b, i - 1);
            assert forall|n: int| 0 <= n < 256 implies -eta <= #[trigger] xshift(y)[n] <= eta by {
                if n == 0 { assert(-eta <= y[255] <= eta); } else { assert(-eta <= y[n - 1] <= eta); }
            }
        }
    }
    pub proof fn lemma_nz_count_bounds(c: Seq<i32>, k: int)
        requires 0 <= k,
        ensures 0 <= nz_count(c, k) <= k,
        decreases k
    { if k > 0 { lemma_nz_count_bounds(c, k - 1); } }
    pub proof fn lemma_ring_mul_bound(c: R, s: Seq<int>, eta: int, k: int)
        requires s.len() == 256, 0 <= k <= 256, eta >= 0, forall|n: int| 0 <= n < 256 ==> -1 <= #[trigger] c.0[n] <= 1,
            forall|n: int| 0 <= n < 256 ==> -eta <= #[trigger] s[n] <= eta,
        ensures forall|n: int| 0 <= n < 256 ==> -(nz_count(c.0@, k) * eta) <= #[trigger] ring_mul_upto(poly_ints(c.0), s, k)[n] <= nz_count(c.0@, k) * eta,
        decreases k
    {
        let a = poly_ints(c.0);
        if k == 0 {
            assert(nz_count(c.0@, 0) * eta == 0);
        } else {
            lemma_ring_mul_bound(c, s, eta, k - 1);
            lemma_xshift_n_bound(s, k - 1, eta);
            let prev = ring_mul_upto(a, s, k - 1); let sh = xshift_n(s, k - 1);
            let cnt0 = nz_count(c.0@, k - 1);
            lemma_nz_count_bounds(c.0@, k - 1);
            assert(a[k - 1] == c.0[k - 1] as int);
            assert(c.0@[k - 1] == c.0[k - 1]);
            assert forall|n: int| 0 <= n < 256 implies -(nz_count(c.0@, k) * eta) <= #[trigger] ring_mul_upto(a, s, k)[n] <= nz_count(c.0@, k) * eta by {
                assert(ring_mul_upto(a, s, k)[n] == prev[n] + a[k - 1] * sh[n]);
                assert(-(cnt0 * eta) <= prev[n] <= cnt0 * eta);
                assert(-eta <= sh[n] <= eta);
                if c.0[k - 1] == 0 {
                    assert(a[k - 1] * sh[n] == 0);
                } else {
                    assert(nz_count(c.0@, k) == cnt0 + 1);
                    assert((cnt0 + 1) * eta == cnt0 * eta + eta) by (nonlinear_arith);
                    let av = a[k - 1]; let sv = sh[n];
                    if c.0[k - 1] == 1 { assert(av * sv == sv) by (nonlinear_arith) requires av == 1; }
                    else { assert(c.0[k - 1] == -1); assert(av * sv == -sv) by (nonlinear_arith) requires av == -1; }
                }
            }
        }
    }
