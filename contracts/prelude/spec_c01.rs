    // ---- C01 (completeness): FIPS 204's own correctness argument over the proved specifications.
    // (a) scalar facts about Algorithms 36-40
    pub open spec fn dec_form(g: int, al: int, m: int, rp: int) -> (int, int) {
        let a = rp / al; let b = rp % al;
        if b <= g { if a == m { (0int, b - 1) } else { (a, b) } } else if a + 1 == m { (0int, b - al - 1) } else { (a + 1, b - al) }
    }
    pub proof fn lemma_dec_form_a(rp: int)
        requires 0 <= rp < Q,
        ensures spec_decompose(95_232, rp) == dec_form(95_232, 190_464, 44, rp), 0 <= rp / 190_464 <= 44, 0 <= rp % 190_464 < 190_464,
            rp == 190_464 * (rp / 190_464) + rp % 190_464,
    {
        assert(rp % (Q as int) == rp);
        let b = rp % 190_464; let a = rp / 190_464;
        if b <= 95_232 { assert((rp - b) / 190_464 == a); }
        else { assert((rp - (b - 190_464)) / 190_464 == a + 1); }
    }
    pub proof fn lemma_dec_form_b(rp: int)
        requires 0 <= rp < Q,
        ensures spec_decompose(261_888, rp) == dec_form(261_888, 523_776, 16, rp), 0 <= rp / 523_776 <= 16, 0 <= rp % 523_776 < 523_776,
            rp == 523_776 * (rp / 523_776) + rp % 523_776,
    {
        assert(rp % (Q as int) == rp);
        let b = rp % 523_776; let a = rp / 523_776;
        if b <= 261_888 { assert((rp - b) / 523_776 == a); }
        else { assert((rp - (b - 523_776)) / 523_776 == a + 1); }
    }
    pub open spec fn wrapq(x: int) -> int { if x < 0 { x + Q } else if x >= Q { x - Q } else { x } }
    // UseHint(MakeHint(z, r), r) == HighBits(r + z) when |z| <= gamma2  (rp = r mod q, zeta = z mod+- q); one query per gamma2
    pub proof fn lemma_use_make_hint_a(rp: int, zeta: int)
        requires 0 <= rp < Q, -95_232 <= zeta <= 95_232,
        ensures ({ let g = 95_232int; let vp = wrapq(rp + zeta);
                   spec_use_hint(g, if spec_high_bits(g, rp) != spec_high_bits(g, vp) { 1int } else { 0int }, rp) == spec_high_bits(g, vp) }),
    {
        let vp = wrapq(rp + zeta);
        lemma_dec_form_a(rp); lemma_dec_form_a(vp);
        assert((Q - 1) / (2 * 95_232int) == 44) by { assert(8_380_416int / 190_464int == 44) by (compute); }
    }
    pub proof fn lemma_use_make_hint_b(rp: int, zeta: int)
        requires 0 <= rp < Q, -261_888 <= zeta <= 261_888,
        ensures ({ let g = 261_888int; let vp = wrapq(rp + zeta);
                   spec_use_hint(g, if spec_high_bits(g, rp) != spec_high_bits(g, vp) { 1int } else { 0int }, rp) == spec_high_bits(g, vp) }),
    {
        let vp = wrapq(rp + zeta);
        lemma_dec_form_b(rp); lemma_dec_form_b(vp);
        assert((Q - 1) / (2 * 261_888int) == 16) by { assert(8_380_416int / 523_776int == 16) by (compute); }
    }
    pub proof fn lemma_use_make_hint(g: int, rp: int, zeta: int)
        requires gamma2_ok(g), 0 <= rp < Q, -g <= zeta <= g,
        ensures ({ let vp = wrapq(rp + zeta);
                   spec_use_hint(g, if spec_high_bits(g, rp) != spec_high_bits(g, vp) { 1int } else { 0int }, rp) == spec_high_bits(g, vp) }),
    {
        if g == 95_232 { lemma_use_make_hint_a(rp, zeta); } else { lemma_use_make_hint_b(rp, zeta); }
    }
    // HighBits(r) == HighBits(r + s) when |s| <= beta and |LowBits(r)| < gamma2 - beta
    pub proof fn lemma_high_bits_stable(g: int, vp: int, eps: int, beta: int)
        requires gamma2_ok(g), 0 <= vp < Q, 0 <= beta < g, -beta <= eps <= beta, spec_abs(spec_low_bits(g, vp)) < g - beta,
        ensures spec_high_bits(g, wrapq(vp + eps)) == spec_high_bits(g, vp),
    {
        if g == 95_232 { lemma_dec_form_a(vp); lemma_dec_form_a(wrapq(vp + eps)); }
        else { lemma_dec_form_b(vp); lemma_dec_form_b(wrapq(vp + eps)); }
    }
    // (b) Algorithm 41 is linear and only depends on residues (through the evaluation view)
    pub proof fn lemma_sev_coef_cong(x: Seq<int>, y: Seq<int>, n: int, r: int)
        requires 0 <= n <= 256, forall|t: int| 0 <= t < 256 ==> cong(#[trigger] x[t], y[t]),
        ensures cong(sev(x, 0, 1, n, r), sev(y, 0, 1, n, r)),
        decreases n
    {
        if n == 0 { lemma_cong_refl(0); } else {
            lemma_sev_coef_cong(x, y, n - 1, r);
            let t = n - 1;
            assert(0 + t * 1 == t);
            lemma_cong_refl(ipow(r, t));
            lemma_cong_mul(x[t], y[t], ipow(r, t), ipow(r, t));
            lemma_cong_add(sev(x, 0, 1, n - 1, r), sev(y, 0, 1, n - 1, r), x[t] * ipow(r, t), y[t] * ipow(r, t));
        }
    }
    pub proof fn lemma_ntt_coef_cong(x: Seq<int>, y: Seq<int>, j: int)
        requires x.len() == 256, y.len() == 256, 0 <= j < 256, forall|t: int| 0 <= t < 256 ==> cong(#[trigger] x[t], y[t]),
        ensures cong(spec_ntt(x)[j], spec_ntt(y)[j]),
    {
        lemma_ntt_is_eval(x, j); lemma_ntt_is_eval(y, j);
        lemma_sev_coef_cong(x, y, 256, ntt_root(j));
        lemma_cong_trans(spec_ntt(x)[j], peval(x, ntt_root(j)), peval(y, ntt_root(j)));
        lemma_cong_sym(spec_ntt(y)[j], peval(y, ntt_root(j)));
        lemma_cong_trans(spec_ntt(x)[j], peval(y, ntt_root(j)), spec_ntt(y)[j]);
    }
    // NTT(x + y - z)[j] == NTT(x)[j] + NTT(y)[j] - NTT(z)[j]  (mod q), for p given pointwise up to congruence
    pub proof fn lemma_ntt_lin3(p: Seq<int>, x: Seq<int>, y: Seq<int>, z: Seq<int>, j: int)
        requires p.len() == 256, x.len() == 256, y.len() == 256, z.len() == 256, 0 <= j < 256,
            forall|t: int| 0 <= t < 256 ==> cong(#[trigger] p[t], x[t] + y[t] - z[t]),
        ensures cong(spec_ntt(p)[j], spec_ntt(x)[j] + spec_ntt(y)[j] - spec_ntt(z)[j]),
    {
        let r = ntt_root(j);
        let s = padd(padd(x, y), pscale(-1, z));
        assert forall|t: int| 0 <= t < 256 implies cong(#[trigger] p[t], s[t]) by { assert(s[t] == x[t] + y[t] + (-1) * z[t]); }
        lemma_ntt_coef_cong(p, s, j);
        lemma_ntt_is_eval(s, j); lemma_ntt_is_eval(x, j); lemma_ntt_is_eval(y, j); lemma_ntt_is_eval(z, j);
        lemma_sev1_add(padd(x, y), pscale(-1, z), 256, r);
        lemma_sev1_add(x, y, 256, r);
        lemma_sev1_scale(-1, z, 256, r);
        assert(peval(s, r) == peval(x, r) + peval(y, r) + (-1) * peval(z, r));
        lemma_cong_add(spec_ntt(x)[j], peval(x, r), spec_ntt(y)[j], peval(y, r));
        lemma_cong_add(spec_ntt(x)[j] + spec_ntt(y)[j], peval(x, r) + peval(y, r), spec_ntt(z)[j], peval(z, r));
        lemma_cong_sym(spec_ntt(x)[j] + spec_ntt(y)[j] - spec_ntt(z)[j], peval(x, r) + peval(y, r) - peval(z, r));
        lemma_cong_trans(spec_ntt(p)[j], spec_ntt(s)[j], peval(s, r));
        lemma_cong_trans(spec_ntt(p)[j], peval(s, r), spec_ntt(x)[j] + spec_ntt(y)[j] - spec_ntt(z)[j]);
    }
    pub proof fn lemma_ntt_scale(c: int, p: Seq<int>, x: Seq<int>, j: int)
        requires p.len() == 256, x.len() == 256, 0 <= j < 256, forall|t: int| 0 <= t < 256 ==> cong(#[trigger] p[t], c * x[t]),
        ensures cong(spec_ntt(p)[j], c * spec_ntt(x)[j]),
    {
        let r = ntt_root(j);
        let s = pscale(c, x);
        assert forall|t: int| 0 <= t < 256 implies cong(#[trigger] p[t], s[t]) by { }
        lemma_ntt_coef_cong(p, s, j);
        lemma_ntt_is_eval(s, j); lemma_ntt_is_eval(x, j);
        lemma_sev1_scale(c, x, 256, r);
        lemma_cong_refl(c);
        lemma_cong_mul(c, c, spec_ntt(x)[j], peval(x, r));
        lemma_cong_sym(c * spec_ntt(x)[j], c * peval(x, r));
        lemma_cong_trans(spec_ntt(p)[j], spec_ntt(s)[j], peval(s, r));
        lemma_cong_trans(spec_ntt(p)[j], c * peval(x, r), c * spec_ntt(x)[j]);
    }
    // (c) ||c * s||inf <= tau * eta for a challenge with tau coefficients +-1: the bound the signer never checks
    pub proof fn lemma_xshift_n_bound(b: Seq<int>, i: int, eta: int)
        requires b.len() == 256, i >= 0, forall|n: int| 0 <= n < 256 ==> -eta <= #[trigger] b[n] <= eta,
        ensures xshift_n(b, i).len() == 256, forall|n: int| 0 <= n < 256 ==> -eta <= #[trigger] xshift_n(b, i)[n] <= eta,
        decreases i
    {
        if i > 0 {
            lemma_xshift_n_bound(b, i - 1, eta);
            let y = xshift_n(b, i - 1);
            assert forall|n: int| 0 <= n < 256 implies -eta <= #[trigger] xshift(y)[n] <= eta by {
                if n == 0 { assert(-eta <= y[255] <= eta); } else { assert(-eta <= y[n - 1] <= eta); }
            }
        }
    }
    pub proof fn lemma_nz_count_bounds(c: Seq<i32>, k: int)
        requires 0 <= k,
        ensures 0 <= nz_count(c, k) <= k,
        decreases k
    { if k > 0 { lemma_nz_count_bounds(c, k - 1); } }
    pub proof fn lemma_ring_mul_bound(c: R, s: Seq<int>, eta: int, k: int)
        requires s.len() == 256, 0 <= k <= 256, eta >= 0, forall|n: int| 0 <= n < 256 ==> -1 <= #[trigger] c.0[n] <= 1,
            forall|n: int| 0 <= n < 256 ==> -eta <= #[trigger] s[n] <= eta,
        ensures forall|n: int| 0 <= n < 256 ==> -(nz_count(c.0@, k) * eta) <= #[trigger] ring_mul_upto(poly_ints(c.0), s, k)[n] <= nz_count(c.0@, k) * eta,
        decreases k
    {
        let a = poly_ints(c.0);
        if k == 0 {
            assert(nz_count(c.0@, 0) * eta == 0);
        } else {
            lemma_ring_mul_bound(c, s, eta, k - 1);
            lemma_xshift_n_bound(s, k - 1, eta);
            let prev = ring_mul_upto(a, s, k - 1); let sh = xshift_n(s, k - 1);
            let cnt0 = nz_count(c.0@, k - 1);
            lemma_nz_count_bounds(c.0@, k - 1);
            assert(a[k - 1] == c.0[k - 1] as int);
            assert(c.0@[k - 1] == c.0[k - 1]);
            assert forall|n: int| 0 <= n < 256 implies -(nz_count(c.0@, k) * eta) <= #[trigger] ring_mul_upto(a, s, k)[n] <= nz_count(c.0@, k) * eta by {
                assert(ring_mul_upto(a, s, k)[n] == prev[n] + a[k - 1] * sh[n]);
                assert(-(cnt0 * eta) <= prev[n] <= cnt0 * eta);
                assert(-eta <= sh[n] <= eta);
                if c.0[k - 1] == 0 {
                    let av0 = a[k - 1]; let sv0 = sh[n];
                    assert(av0 * sv0 == 0) by (nonlinear_arith) requires av0 == 0;
                } else {
                    assert(nz_count(c.0@, k) == cnt0 + 1);
                    assert((cnt0 + 1) * eta == cnt0 * eta + eta) by (nonlinear_arith);
                    let av = a[k - 1]; let sv = sh[n];
                    if c.0[k - 1] == 1 { assert(av * sv == sv) by (nonlinear_arith) requires av == 1; }
                    else { assert(c.0[k - 1] == -1); assert(av * sv == -sv) by (nonlinear_arith) requires av == -1; }
                }
            }
        }
    }
    // (d) the verifier's w'_approx equals w - c*s2 + c*t0 (mod q), coefficient by coefficient
    pub proof fn lemma_ntt_add2(p: Seq<int>, x: Seq<int>, y: Seq<int>, j: int)
        requires p.len() == 256, x.len() == 256, y.len() == 256, 0 <= j < 256, forall|t: int| 0 <= t < 256 ==> cong(#[trigger] p[t], x[t] + y[t]),
        ensures cong(spec_ntt(p)[j], spec_ntt(x)[j] + spec_ntt(y)[j]),
    {
        let r = ntt_root(j);
        let s = padd(x, y);
        assert forall|t: int| 0 <= t < 256 implies cong(#[trigger] p[t], s[t]) by { }
        lemma_ntt_coef_cong(p, s, j);
        lemma_ntt_is_eval(s, j); lemma_ntt_is_eval(x, j); lemma_ntt_is_eval(y, j);
        lemma_sev1_add(x, y, 256, r);
        lemma_cong_add(spec_ntt(x)[j], peval(x, r), spec_ntt(y)[j], peval(y, r));
        lemma_cong_sym(spec_ntt(x)[j] + spec_ntt(y)[j], peval(x, r) + peval(y, r));
        lemma_cong_trans(spec_ntt(p)[j], spec_ntt(s)[j], peval(s, r));
        lemma_cong_trans(spec_ntt(p)[j], peval(s, r), spec_ntt(x)[j] + spec_ntt(y)[j]);
    }
    pub proof fn lemma_cmul_len2(cs: Seq<int>, shm: [i32; 256])
        ensures cmul(cs, shm).len() == 256, forall|n: int| 0 <= n < 256 ==> 0 <= #[trigger] cmul(cs, shm)[n] < Q,
    {
        reveal(spec_invntt);
        assert forall|n: int| 0 <= n < 256 implies 0 <= #[trigger] cmul(cs, shm)[n] < Q by {
            let v = intt_layers(cmul_seq(cs, shm), 0);
            lemma_cong_mod(8_347_681 * v[n]);
        }
    }
    // NTT(c * s)[j] == NTT(c)[j] * NTT(s)[j] for c*s as the signer / verifier compute it
    pub proof fn lemma_cmul_ntt(cs: Seq<int>, shm: [i32; 256], s: Seq<int>, j: int)
        requires 0 <= j < 256, forall|n: int| 0 <= n < 256 ==> mont_of(#[trigger] shm[n] as int, spec_ntt(s)[n]),
        ensures cong(spec_ntt(cmul(cs, shm))[j], spec_ntt(cs)[j] * spec_ntt(s)[j]),
    {
        lemma_cmul_len(cs, shm);
        lemma_ntt_invntt(cmul_seq(cs, shm));
        reveal(cmul_seq);
        assert(cmul_seq(cs, shm)[j] == spec_ntt(cs)[j] * demont(shm[j] as int));
        lemma_demont_of_mont(shm[j] as int, spec_ntt(s)[j]);
        lemma_cong_refl(spec_ntt(cs)[j]);
        lemma_cong_mul(spec_ntt(cs)[j], spec_ntt(cs)[j], demont(shm[j] as int), spec_ntt(s)[j]);
        lemma_cong_trans(spec_ntt(cmul(cs, shm))[j], cmul_seq(cs, shm)[j], spec_ntt(cs)[j] * spec_ntt(s)[j]);
    }
    pub proof fn lemma_dotz_lin<const K: usize, const L: usize>(a: [[T; L]; K], zs: Seq<Seq<int>>, ys: Seq<Seq<int>>, s1v: Seq<Seq<int>>, sc: int, k: int, n: int, j: int)
        requires 0 <= j <= L, forall|jj: int| 0 <= jj < L ==> cong(#[trigger] spec_ntt(zs[jj])[n], spec_ntt(ys[jj])[n] + sc * spec_ntt(s1v[jj])[n]),
        ensures cong(dotz(a, zs, k, n, j), dotz(a, ys, k, n, j) + sc * dotz(a, s1v, k, n, j)),
        decreases j
    {
        reveal_with_fuel(dotz, 2);
        if j == 0 { assert(sc * 0 == 0); lemma_cong_refl(0); } else {
            lemma_dotz_lin(a, zs, ys, s1v, sc, k, n, j - 1);
            let av = a[k][j - 1].0[n] as int;
            let nz = spec_ntt(zs[j - 1])[n]; let ny = spec_ntt(ys[j - 1])[n]; let ns = spec_ntt(s1v[j - 1])[n];
            lemma_cong_refl(av);
            lemma_cong_mul(av, av, nz, ny + sc * ns);
            lemma_cong_add(dotz(a, zs, k, n, j - 1), dotz(a, ys, k, n, j - 1) + sc * dotz(a, s1v, k, n, j - 1), av * nz, av * (ny + sc * ns));
            let dy = dotz(a, ys, k, n, j - 1); let d1 = dotz(a, s1v, k, n, j - 1);
            assert(dy + sc * d1 + av * (ny + sc * ns) == (dy + av * ny) + sc * (d1 + av * ns)) by (nonlinear_arith);
        }
    }
    pub proof fn lemma_c01_alg(wb: int, dz: int, dy: int, sc: int, d1: int, dm: int, n2: int, n0: int)
        requires wb == dz - sc * dm, cong(dz, dy + sc * d1), cong(dm, d1 + n2 - n0),
        ensures cong(wb, dy - sc * n2 + sc * n0),
    {
        lemma_cong_refl(sc);
        lemma_cong_mul(sc, sc, dm, d1 + n2 - n0);
        lemma_cong_add(dz, dy + sc * d1, sc * dm, sc * (d1 + n2 - n0));
        assert((dy + sc * d1) - sc * (d1 + n2 - n0) == dy - sc * n2 + sc * n0) by (nonlinear_arith);
    }
    pub proof fn lemma_wapprox<const K: usize, const L: usize>(a: [[T; L]; K], pk: PublicKey<K, L>, sk: PrivateKey<K, L>, eta: int,
            ys: Seq<Seq<int>>, zs: Seq<Seq<int>>, cs: Seq<int>, s1v: Seq<Seq<int>>, s2v: Seq<Seq<int>>, k: int)
        requires 0 <= k < K, 1 <= K <= 8, 1 <= L <= 8, cs.len() == 256,
            ys.len() == L, zs.len() == L, forall|l: int| 0 <= l < L ==> (#[trigger] ys[l]).len() == 256, forall|l: int| 0 <= l < L ==> (#[trigger] zs[l]).len() == 256,
            sk_coefs_ok(sk, eta, s1v, s2v, kg_t0(a, s1v, s2v)), pk_coefs_ok(pk, kg_t1(a, s1v, s2v)),
            forall|l: int, n: int| 0 <= l < L && 0 <= n < 256 ==> cong(#[trigger] zs[l][n], ys[l][n] + cmul(cs, sk.s_1_hat_mont[l].0)[n]),
        ensures forall|n: int| 0 <= n < 256 ==> #[trigger] vfy_w(a, zs, cs, pk.t1_d2_hat_mont, k)[n]
            == (sgn_w(a, ys, k)[n] - cmul(cs, sk.s_2_hat_mont[k].0)[n] + cmul(cs, sk.t_0_hat_mont[k].0)[n]) % (Q as int),
    {
        let t0v = kg_t0(a, s1v, s2v); let t1v = kg_t1(a, s1v, s2v);
        let w = sgn_w(a, ys, k);
        let cs2 = cmul(cs, sk.s_2_hat_mont[k].0); let ct0 = cmul(cs, sk.t_0_hat_mont[k].0);
        lemma_cmul_len2(cs, sk.s_2_hat_mont[k].0); lemma_cmul_len2(cs, sk.t_0_hat_mont[k].0);
        lemma_wbar_at(a, ys, k, 0);
        lemma_ntt_invntt(sgn_wbar_seq(a, ys, k));
        assert(w.len() == 256);
        let p = Seq::new(256, |m: int| w[m] - cs2[m] + ct0[m]);
        // the key-generation identity in the NTT domain: 8192 * NTT(t1_k) == A_k . NTT(s1) + NTT(s2_k) - NTT(t0_k)
        let d = sgn_w(a, s1v, k);
        lemma_wbar_at(a, s1v, k, 0);
        lemma_ntt_invntt(sgn_wbar_seq(a, s1v, k));
        assert(d.len() == 256);
        assert(s2v[k].len() == 256 && t0v[k].len() == 256 && t1v[k].len() == 256);
        let p8 = pscale(8192, t1v[k]);
        lemma_power2round_all();
        assert forall|m: int| 0 <= m < 256 implies cong(#[trigger] p8[m], d[m] + s2v[k][m] - t0v[k][m]) by {
            let t = kg_t(a, s1v, s2v, k, m);
            lemma_cong_mod(d[m] + s2v[k][m]);
            assert(0 <= t < Q);
            assert(t1v[k][m] == spec_power2round(t).0 && t0v[k][m] == spec_power2round(t).1);
            assert(t == 8192 * t1v[k][m] + t0v[k][m]);
            assert(p8[m] == t - t0v[k][m]);
            lemma_cong_refl(t0v[k][m]);
            lemma_cong_add(t, d[m] + s2v[k][m], t0v[k][m], t0v[k][m]);
        }
        let vb = vfy_wbar_seq(a, zs, cs, pk.t1_d2_hat_mont, k);
        assert forall|n: int| 0 <= n < 256 implies cong(#[trigger] vb[n], spec_ntt(p)[n]) by {
            let sc = spec_ntt(cs)[n];
            // NTT(z_j)[n] == NTT(y_j)[n] + sc * NTT(s1_j)[n]
            assert forall|jj: int| 0 <= jj < L implies cong(#[trigger] spec_ntt(zs[jj])[n], spec_ntt(ys[jj])[n] + sc * spec_ntt(s1v[jj])[n]) by {
                let cm = cmul(cs, sk.s_1_hat_mont[jj].0);
                lemma_cmul_len2(cs, sk.s_1_hat_mont[jj].0);
                assert forall|t: int| 0 <= t < 256 implies cong(#[trigger] zs[jj][t], ys[jj][t] + cm[t]) by { }
                lemma_ntt_add2(zs[jj], ys[jj], cm, n);
                assert forall|m: int| 0 <= m < 256 implies mont_of(#[trigger] sk.s_1_hat_mont[jj].0[m] as int, spec_ntt(s1v[jj])[m]) by { }
                lemma_cmul_ntt(cs, sk.s_1_hat_mont[jj].0, s1v[jj], n);
                lemma_cong_refl(spec_ntt(ys[jj])[n]);
                lemma_cong_add(spec_ntt(ys[jj])[n], spec_ntt(ys[jj])[n], spec_ntt(cm)[n], sc * spec_ntt(s1v[jj])[n]);
                lemma_cong_trans(spec_ntt(zs[jj])[n], spec_ntt(ys[jj])[n] + spec_ntt(cm)[n], spec_ntt(ys[jj])[n] + sc * spec_ntt(s1v[jj])[n]);
            }
            lemma_dotz_lin(a, zs, ys, s1v, sc, k, n, L as int);
            // demont(stored t1) == 8192 * NTT(t1_k)[n] == d1 + NTT(s2_k)[n] - NTT(t0_k)[n]
            let dm = demont(pk.t1_d2_hat_mont[k].0[n] as int);
            let d1 = dotz(a, s1v, k, n, L as int);
            let n2 = spec_ntt(s2v[k])[n]; let n0 = spec_ntt(t0v[k])[n];
            lemma_ntt_scale(8192, p8, t1v[k], n);
            lemma_ntt_lin3(p8, d, s2v[k], t0v[k], n);
            lemma_wbar_at(a, s1v, k, n);
            assert(cong(spec_ntt(d)[n], d1));
            lemma_cong_refl(n2); lemma_cong_refl(n0);
            lemma_cong_add(spec_ntt(d)[n], d1, n2, n2);
            lemma_cong_add(spec_ntt(d)[n] + n2, d1 + n2, n0, n0);
            lemma_cong_sym(spec_ntt(p8)[n], 8192 * spec_ntt(t1v[k])[n]);
            lemma_cong_trans(8192 * spec_ntt(t1v[k])[n], spec_ntt(p8)[n], spec_ntt(d)[n] + n2 - n0);
            lemma_cong_trans(8192 * spec_ntt(t1v[k])[n], spec_ntt(d)[n] + n2 - n0, d1 + n2 - n0);
            assert(cong(dm, 8192 * spec_ntt(t1v[k])[n]));
            lemma_cong_trans(dm, 8192 * spec_ntt(t1v[k])[n], d1 + n2 - n0);
            // the verifier's NTT-domain value
            reveal(vfy_wbar);
            let dz = dotz(a, zs, k, n, L as int); let dy = dotz(a, ys, k, n, L as int);
            assert(vb[n] == dz - sc * dm);
            lemma_c01_alg(vb[n], dz, dy, sc, d1, dm, n2, n0);
            // NTT(p)[n] == NTT(w)[n] + NTT(c t0)[n] - NTT(c s2)[n]
            assert forall|t: int| 0 <= t < 256 implies cong(#[trigger] p[t], w[t] + ct0[t] - cs2[t]) by { lemma_cong_refl(p[t]); }
            lemma_ntt_lin3(p, w, ct0, cs2, n);
            lemma_wbar_at(a, ys, k, n);
            assert(cong(spec_ntt(w)[n], dy));
            assert forall|m: int| 0 <= m < 256 implies mont_of(#[trigger] sk.s_2_hat_mont[k].0[m] as int, spec_ntt(s2v[k])[m]) by { }
            assert forall|m: int| 0 <= m < 256 implies mont_of(#[trigger] sk.t_0_hat_mont[k].0[m] as int, spec_ntt(t0v[k])[m]) by { }
            lemma_cmul_ntt(cs, sk.s_2_hat_mont[k].0, s2v[k], n);
            lemma_cmul_ntt(cs, sk.t_0_hat_mont[k].0, t0v[k], n);
            lemma_cong_add(spec_ntt(w)[n], dy, spec_ntt(ct0)[n], sc * n0);
            lemma_cong_add(spec_ntt(w)[n] + spec_ntt(ct0)[n], dy + sc * n0, spec_ntt(cs2)[n], sc * n2);
            lemma_cong_trans(spec_ntt(p)[n], spec_ntt(w)[n] + spec_ntt(ct0)[n] - spec_ntt(cs2)[n], dy + sc * n0 - sc * n2);
            lemma_cong_sym(spec_ntt(p)[n], dy + sc * n0 - sc * n2);
            assert(dy - sc * n2 + sc * n0 == dy + sc * n0 - sc * n2);
            lemma_cong_trans(vb[n], dy - sc * n2 + sc * n0, spec_ntt(p)[n]);
        }
        lemma_spec_ntt_len(p);
        lemma_invntt_cong(vb, spec_ntt(p));
        lemma_invntt_ntt(p);
    }
    // (e) one coefficient of the commitment: UseHint(h, w'_approx) == HighBits(w)
    pub proof fn lemma_w1_coeff(g2: int, beta: int, wv: int, cs2v: int, ct0v: int, wp: int, h: int)
        requires gamma2_ok(g2), 0 <= beta < g2, 0 <= wv < Q, 0 <= cs2v < Q, 0 <= ct0v < Q,
            wp == (wv - cs2v + ct0v) % (Q as int),
            spec_abs(mod_pm(cs2v, Q as int)) <= beta,
            spec_abs(mod_pm(ct0v, Q as int)) < g2,
            spec_abs(spec_low_bits(g2, wv - cs2v)) < g2 - beta,
            h == (if spec_make_hint(g2, Q - ct0v, wv - cs2v + ct0v) { 1int } else { 0int }),
        ensures spec_use_hint(g2, h, wp) == spec_high_bits(g2, wv),
    {
        let q = Q as int;
        let r = wv - cs2v + ct0v;
        lemma_cong_mod(r);
        let rp = wp;
        assert(0 <= rp < q && cong(rp, r));
        // zeta = -(ct0 mod+- q): r + zeta == w - c s2 (mod q)
        let m0 = mod_pm(ct0v, q);
        assert(m0 == ct0v || m0 == ct0v - q) by { assert(ct0v % q == ct0v); }
        let zeta = -m0;
        let vp = wrapq(rp + zeta);
        assert(0 <= vp < q);
        assert(cong(vp, wv - cs2v)) by {
            // vp - (wv - cs2v) is a multiple of q
            let k = lemma_cong_witness(rp, r);
            let e: int = if m0 == ct0v { 0 } else { 1 };
            let f: int = if rp + zeta < 0 { 1 } else if rp + zeta >= q { -1 } else { 0 };
            assert(vp - (wv - cs2v) == (k + e + f) * q) by (nonlinear_arith)
                requires rp - r == k * q, r == wv - cs2v + ct0v, zeta == -m0, m0 == ct0v - e * q, vp == rp + zeta + f * q;
            lemma_cong_from(vp, wv - cs2v, k + e + f);
        }
        // the hint bit is [HighBits(rp) != HighBits(vp)]
        lemma_decompose_cong(g2, rp, r);
        assert(cong(vp, r + (Q - ct0v))) by {
            let k2 = lemma_cong_witness(vp, wv - cs2v);
            assert(vp - (r + (q - ct0v)) == (k2 - 1) * q) by (nonlinear_arith) requires vp - (wv - cs2v) == k2 * q, r == wv - cs2v + ct0v;
            lemma_cong_from(vp, r + (q - ct0v), k2 - 1);
        }
        lemma_decompose_cong(g2, vp, r + (Q - ct0v));
        assert(h == (if spec_high_bits(g2, rp) != spec_high_bits(g2, vp) { 1int } else { 0int }));
        lemma_use_make_hint(g2, rp, zeta);
        assert(spec_use_hint(g2, h, rp) == spec_high_bits(g2, vp));
        // HighBits(w - c s2) == HighBits(w)
        let eps = mod_pm(cs2v, q);
        assert(eps == cs2v || eps == cs2v - q) by { assert(cs2v % q == cs2v); }
        lemma_decompose_cong(g2, vp, wv - cs2v);
        lemma_high_bits_stable(g2, vp, eps, beta);
        let wq = wrapq(vp + eps);
        assert(0 <= wq < q);
        assert(cong(wq, wv)) by {
            let k3 = lemma_cong_witness(vp, wv - cs2v);
            let e: int = if eps == cs2v { 0 } else { 1 };
            let f: int = if vp + eps < 0 { 1 } else if vp + eps >= q { -1 } else { 0 };
            assert(wq - wv == (k3 - e + f) * q) by (nonlinear_arith)
                requires vp - (wv - cs2v) == k3 * q, eps == cs2v - e * q, wq == vp + eps + f * q;
            lemma_cong_from(wq, wv, k3 - e + f);
        }
        lemma_cong_canonical(wq, wv);
        assert(wv % q == wv);
    }
    // (f) pieces of the per-coefficient argument, each with its own small query
    pub proof fn lemma_c01_zs<const K: usize, const L: usize>(a: [[T; L]; K], sk: PrivateKey<K, L>, ys: Seq<Seq<int>>, c: R, sig: Seq<u8>,
            beta: int, gamma1: int, gamma2: int, omega: int, lam4: int)
        requires sign_attempt(a, sk, ys, c, sig, beta, gamma1, gamma2, omega, lam4),
        ensures forall|l: int, m: int| 0 <= l < L && 0 <= m < 256 ==>
            cong(#[trigger] sig_zs(sig, gamma1, lam4, L as int)[l][m], ys[l][m] + cmul(poly_ints(c.0), sk.s_1_hat_mont[l].0)[m]),
    {
        let cs = poly_ints(c.0); let zs = sig_zs(sig, gamma1, lam4, L as int); let q = Q as int;
        assert forall|l: int, m: int| 0 <= l < L && 0 <= m < 256 implies cong(#[trigger] zs[l][m], ys[l][m] + cmul(cs, sk.s_1_hat_mont[l].0)[m]) by {
            let x = ys[l][m] + cmul(cs, sk.s_1_hat_mont[l].0)[m];
            assert(zs[l][m] == sig_z(sig, gamma1, lam4, l, m));
            assert(sig_z(sig, gamma1, lam4, l, m) == mod_pm(x, q));
            lemma_cong_mod(x);
            if x % q > q / 2 { lemma_cong_from(x % q - q, x % q, -1); lemma_cong_trans(x % q - q, x % q, x); }
        }
    }
    pub proof fn lemma_c01_cs2_bound(c: R, shm: [i32; 256], s: Seq<int>, eta: int, tau: int, n: int)
        requires s.len() == 256, 0 <= n < 256, eta >= 0, 0 <= tau * eta < 4_000_000, c_small(c, tau),
            forall|m: int| 0 <= m < 256 ==> mont_of(#[trigger] shm[m] as int, spec_ntt(s)[m]), forall|m: int| 0 <= m < 256 ==> -eta <= #[trigger] s[m] <= eta,
        ensures spec_abs(mod_pm(cmul(poly_ints(c.0), shm)[n], Q as int)) <= tau * eta,
    {
        let cs = poly_ints(c.0); let q = Q as int; let beta = tau * eta;
        lemma_cmul_is_ring_mul(cs, shm, s);
        lemma_ring_mul_bound(c, s, eta, 256);
        let rm = ring_mul(cs, s)[n];
        assert(-beta <= rm <= beta);
        assert(cmul(cs, shm)[n] == rm % q);
        if rm < 0 { assert((rm + q) % q == rm + q); assert(rm % q == rm + q); } else { assert(rm % q == rm); }
    }
    #[verifier::rlimit(150)]
    pub proof fn lemma_c01_w1_eq<const K: usize, const L: usize>(a: [[T; L]; K], pk: PublicKey<K, L>, sk: PrivateKey<K, L>, eta: int, ys: Seq<Seq<int>>, c: R,
            s1v: Seq<Seq<int>>, s2v: Seq<Seq<int>>, sig: Seq<u8>, beta: int, gamma1: int, gamma2: int, omega: int, tau: int, lam4: int, k: int, n: int)
        requires eta_ok(eta), 1 <= K <= 8, 1 <= L <= 8, gamma2_ok(gamma2), beta == tau * eta, 0 <= beta < gamma2, 0 <= k < K, 0 <= n < 256,
            ys.len() == L, forall|l: int| 0 <= l < L ==> (#[trigger] ys[l]).len() == 256,
            sk_coefs_ok(sk, eta, s1v, s2v, kg_t0(a, s1v, s2v)), pk_coefs_ok(pk, kg_t1(a, s1v, s2v)), c_small(c, tau),
            sign_attempt(a, sk, ys, c, sig, beta, gamma1, gamma2, omega, lam4),
        ensures vfy_w1fn(a, c, pk.t1_d2_hat_mont, sig, gamma1, gamma2, omega, lam4)(k, n) == sgn_w1fn(a, ys, gamma2)(k, n),
    {
        let cs = poly_ints(c.0);
        let zs = sig_zs(sig, gamma1, lam4, L as int);
        lemma_c01_zs(a, sk, ys, c, sig, beta, gamma1, gamma2, omega, lam4);
        lemma_wapprox(a, pk, sk, eta, ys, zs, cs, s1v, s2v, k);
        let wv = sgn_w(a, ys, k)[n];
        let cs2v = cmul(cs, sk.s_2_hat_mont[k].0)[n]; let ct0v = cmul(cs, sk.t_0_hat_mont[k].0)[n];
        let wp = vfy_w(a, zs, cs, pk.t1_d2_hat_mont, k)[n];
        lemma_cmul_len2(cs, sk.s_2_hat_mont[k].0); lemma_cmul_len2(cs, sk.t_0_hat_mont[k].0);
        assert(0 <= wv < Q) by {
            reveal(spec_invntt);
            let v = intt_layers(sgn_wbar_seq(a, ys, k), 0);
            lemma_cong_mod(8_347_681 * v[n]);
        }
        assert(s2v[k].len() == 256);
        assert forall|m: int| 0 <= m < 256 implies mont_of(#[trigger] sk.s_2_hat_mont[k].0[m] as int, spec_ntt(s2v[k])[m]) by { }
        assert forall|m: int| 0 <= m < 256 implies -eta <= #[trigger] s2v[k][m] <= eta by { }
        lemma_c01_cs2_bound(c, sk.s_2_hat_mont[k].0, s2v[k], eta, tau, n);
        let h = sig_h(sig, gamma1, lam4, L as int, omega, k, n);
        lemma_w1_coeff(gamma2, beta, wv, cs2v, ct0v, wp, h);
    }
    // (g) completeness: a signature that satisfies sign_spec for a key pair that satisfies keygen_spec makes verify_spec true
    #[verifier::rlimit(150)]
    pub proof fn lemma_c01<const K: usize, const L: usize>(xi: Seq<u8>, eta: int, pk: PublicKey<K, L>, sk: PrivateKey<K, L>, sig: Seq<u8>, mu: Seq<u8>, rnd: Seq<u8>,
            beta: int, gamma1: int, gamma2: int, omega: int, tau: int, lam4: int)
        requires eta_ok(eta), 1 <= K <= 8, 1 <= L <= 8, gamma2_ok(gamma2), tau >= 0, beta == tau * eta, 0 <= beta < gamma2,
            keygen_spec(xi, eta, pk, sk),
            sign_spec(sig, sk, mu, rnd, beta, gamma1, gamma2, omega, tau, lam4),
            hint_canonical(sig_hint_bytes(sig, gamma1, lam4, L as int), omega, K as int),
        ensures verify_spec(true, pk, mu, sig, beta, gamma1, gamma2, omega, tau, lam4),
    {
        let (a0, s1, s2, pkb) = choose|a: [[T; L]; K], s1: [R; L], s2: [R; K], pkb: Seq<u8>| #[trigger] kg_wit(xi, eta, pk, sk, a, s1, s2, pkb);
        assert(kg_wit(xi, eta, pk, sk, a0, s1, s2, pkb));
        let rhopp = sign_rhopp(sk.cap_k@, rnd, mu);
        let (a, c, kappa) = choose|a: [[T; L]; K], c: R, kappa: int| #[trigger] sign_wit(sk, sig, tau, lam4, a, c, kappa)
            && sign_commit(a, mask_ys(rhopp, kappa, gamma1, L as int), mu, sig, gamma2, lam4)
            && sign_attempt(a, sk, mask_ys(rhopp, kappa, gamma1, L as int), c, sig, beta, gamma1, gamma2, omega, lam4)
            && all_rejected_before(a, sk, mu, rhopp, kappa, beta, gamma1, gamma2, omega, tau, lam4);
        let ys = mask_ys(rhopp, kappa, gamma1, L as int);
        assert(sign_wit(sk, sig, tau, lam4, a, c, kappa) && sign_commit(a, ys, mu, sig, gamma2, lam4) && sign_attempt(a, sk, ys, c, sig, beta, gamma1, gamma2, omega, lam4));
        lemma_expand_a_unique(sk.rho@, a, a0);
        let s1v = vec_ints(s1); let s2v = vec_ints(s2);
        assert(ys.len() == L && forall|l: int| 0 <= l < L ==> (#[trigger] ys[l]).len() == 256) by { reveal(mask_ys); }
        let w1s = sgn_w1fn(a, ys, gamma2);
        let w1v = vfy_w1fn(a, c, pk.t1_d2_hat_mont, sig, gamma1, gamma2, omega, lam4);
        assert forall|k: int, n: int| 0 <= k < K && 0 <= n < 256 implies #[trigger] w1v(k, n) == w1s(k, n) by {
            lemma_c01_w1_eq(a, pk, sk, eta, ys, c, s1v, s2v, sig, beta, gamma1, gamma2, omega, tau, lam4, k, n);
        }
        let w1b = choose|w1b: Seq<u8>| #[trigger] w1_fields_ok(w1b, gamma2, K as int, w1s) && sig.subrange(0, lam4) == stream_take(shake256(mu + w1b), 0, lam4);
        assert(w1_fields_ok(w1b, gamma2, K as int, w1v));
        assert(verify_core(a, c, pk.t1_d2_hat_mont, mu, sig, gamma1, gamma2, omega, lam4));
        assert(verify_wit(pk, sig, tau, lam4, a, c));
    }
    // verify_spec determines the result (ExpandA and SampleInBall are functional)
    pub proof fn lemma_verify_spec_det<const K: usize, const L: usize>(r1: bool, r2: bool, pk: PublicKey<K, L>, mu: Seq<u8>, sig: Seq<u8>,
            beta: int, gamma1: int, gamma2: int, omega: int, tau: int, lam4: int)
        requires tau >= 0, verify_spec(r1, pk, mu, sig, beta, gamma1, gamma2, omega, tau, lam4), verify_spec(r2, pk, mu, sig, beta, gamma1, gamma2, omega, tau, lam4),
        ensures r1 == r2,
    {
        let canon = hint_canonical(sig_hint_bytes(sig, gamma1, lam4, L as int), omega, K as int);
        if canon {
            let (a1, c1) = choose|a: [[T; L]; K], c: R| #[trigger] verify_wit(pk, sig, tau, lam4, a, c)
                && r1 == (sig_z_norm_ok(sig, gamma1, beta, lam4, L as int) && verify_core(a, c, pk.t1_d2_hat_mont, mu, sig, gamma1, gamma2, omega, lam4));
            let (a2, c2) = choose|a: [[T; L]; K], c: R| #[trigger] verify_wit(pk, sig, tau, lam4, a, c)
                && r2 == (sig_z_norm_ok(sig, gamma1, beta, lam4, L as int) && verify_core(a, c, pk.t1_d2_hat_mont, mu, sig, gamma1, gamma2, omega, lam4));
            lemma_expand_a_unique(pk.rho@, a1, a2);
            lemma_sib_unique(tau, shake256(sig.subrange(0, lam4)), c1, c2);
        }
    }
