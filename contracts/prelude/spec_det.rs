    // ---- C08 / C03: the hint encoding of Algorithm 20/21 is injective on canonical strings: the hint vector determines the bytes
    // inside polynomial i's segment the indices are strictly increasing, hence increasing
    pub proof fn lemma_hint_seg_mono(y: Seq<u8>, omega: int, kk: int, i: int, u: int, t: int)
        requires hint_canonical(y, omega, kk), 0 <= i < kk, hint_prev(y, omega, i) <= u < t < y[omega + i],
        ensures y[u] < y[t],
        decreases t - u
    {
        assert(hint_in_poly(y, omega, i, t));
        if u < t - 1 { lemma_hint_seg_mono(y, omega, kk, i, u, t - 1); }
    }
    // two strictly increasing segments starting at the same position with the same value sets are equal, position by position
    pub proof fn lemma_hint_seg_unique(y: Seq<u8>, y2: Seq<u8>, omega: int, kk: int, i: int, t: int)
        requires hint_canonical(y, omega, kk), hint_canonical(y2, omega, kk), 0 <= i < kk,
            hint_prev(y, omega, i) == hint_prev(y2, omega, i), hint_prev(y, omega, i) <= t,
            forall|j: int| 0 <= j < 256 ==> hint_has(y, omega, i, j) == hint_has(y2, omega, i, j),
        ensures (t < y[omega + i]) == (t < y2[omega + i]), t < y[omega + i] ==> y[t] == y2[t],
        decreases t
    {
        let p = hint_prev(y, omega, i);
        let c1 = y[omega + i] as int; let c2 = y2[omega + i] as int;
        // induction hypothesis for every earlier position of the segment
        assert forall|u: int| p <= u < t implies ((u < c1) == (u < c2)) && (u < c1 ==> y[u] == y2[u]) by {
            lemma_hint_seg_unique(y, y2, omega, kk, i, u);
        }
        if t < c1 {
            let j = y[t] as int;
            assert(hint_has(y, omega, i, j));
            assert(hint_has(y2, omega, i, j));
            let u = choose|u: int| p <= u < c2 && #[trigger] y2[u] == j;
            if u < t {
                assert(u < c1 && y[u] == y2[u]);
                lemma_hint_seg_mono(y, omega, kk, i, u, t);
            }
            assert(t < c2);
            let j2 = y2[t] as int;
            assert(hint_has(y2, omega, i, j2));
            assert(hint_has(y, omega, i, j2));
            let u2 = choose|u2: int| p <= u2 < c1 && #[trigger] y[u2] == j2;
            if u2 < t {
                assert(u2 < c2 && y[u2] == y2[u2]);
                lemma_hint_seg_mono(y2, omega, kk, i, u2, t);
            }
            if u > t { lemma_hint_seg_mono(y2, omega, kk, i, t, u); }
            if u2 > t { lemma_hint_seg_mono(y, omega, kk, i, t, u2); }
        } else if t < c2 {
            let j2 = y2[t] as int;
            assert(hint_has(y2, omega, i, j2));
            assert(hint_has(y, omega, i, j2));
            let u2 = choose|u2: int| p <= u2 < c1 && #[trigger] y[u2] == j2;
            assert(u2 < t);
            assert(u2 < c2 && y[u2] == y2[u2]);
            lemma_hint_seg_mono(y2, omega, kk, i, u2, t);
        }
    }
    pub proof fn lemma_hint_counters_unique(y: Seq<u8>, y2: Seq<u8>, omega: int, kk: int, i: int)
        requires hint_canonical(y, omega, kk), hint_canonical(y2, omega, kk), 0 <= i < kk,
            forall|p: int, j: int| 0 <= p < kk && 0 <= j < 256 ==> hint_has(y, omega, p, j) == hint_has(y2, omega, p, j),
        ensures y[omega + i] == y2[omega + i], hint_prev(y, omega, i) == hint_prev(y2, omega, i),
            forall|t: int| hint_prev(y, omega, i) <= t < y[omega + i] ==> y[t] == y2[t],
        decreases i
    {
        if i > 0 { lemma_hint_counters_unique(y, y2, omega, kk, i - 1); }
        let p = hint_prev(y, omega, i);
        assert(p == hint_prev(y2, omega, i));
        let c1 = y[omega + i] as int; let c2 = y2[omega + i] as int;
        assert(p <= c1 && p <= c2);
        if c1 < c2 { lemma_hint_seg_unique(y, y2, omega, kk, i, c1); }
        if c2 < c1 { lemma_hint_seg_unique(y, y2, omega, kk, i, c2); }
        assert forall|t: int| p <= t < c1 implies y[t] == y2[t] by { lemma_hint_seg_unique(y, y2, omega, kk, i, t); }
    }
    // every position below the last counter lies in some polynomial's segment
    pub proof fn lemma_hint_find_seg(y: Seq<u8>, omega: int, kk: int, t: int, i: int) -> (r: int)
        requires hint_canonical(y, omega, kk), 0 <= i < kk, 0 <= t < y[omega + i],
        ensures 0 <= r <= i, hint_prev(y, omega, r) <= t < y[omega + r],
        decreases i
    {
        if hint_prev(y, omega, i) <= t { i } else { lemma_hint_find_seg(y, omega, kk, t, i - 1) }
    }
    pub proof fn lemma_hint_enc_unique(y: Seq<u8>, y2: Seq<u8>, omega: int, kk: int)
        requires kk >= 1, omega >= 0, y.len() == omega + kk, y2.len() == omega + kk, hint_canonical(y, omega, kk), hint_canonical(y2, omega, kk),
            forall|p: int, j: int| 0 <= p < kk && 0 <= j < 256 ==> hint_has(y, omega, p, j) == hint_has(y2, omega, p, j),
        ensures y == y2,
    {
        lemma_hint_counters_unique(y, y2, omega, kk, kk - 1);
        let last = y[omega + kk - 1] as int;
        assert(hint_prev(y, omega, kk) == last && hint_prev(y2, omega, kk) == last);
        assert forall|t: int| 0 <= t < y.len() implies y[t] == y2[t] by {
            if t >= omega {
                lemma_hint_counters_unique(y, y2, omega, kk, t - omega);
            } else if t >= last {
                assert(y[t] == 0 && y2[t] == 0);
            } else {
                let r = lemma_hint_find_seg(y, omega, kk, t, kk - 1);
                lemma_hint_counters_unique(y, y2, omega, kk, r);
            }
        }
        assert(y =~= y2);
    }
    // a signature byte string is determined by c~, the z fields and the (canonical) hint vector: sigDecode is injective on what it accepts
    pub proof fn lemma_sig_bytes_unique(s1: Seq<u8>, s2: Seq<u8>, gamma1: int, omega: int, k: int, l: int, lam4: int)
        requires gamma1_ok(gamma1), 1 <= omega, 1 <= k <= 8, 1 <= l <= 8, 0 <= lam4 <= 64,
            s1.len() == lam4 + l * z_step(gamma1) + omega + k, s2.len() == s1.len(),
            s1.subrange(0, lam4) == s2.subrange(0, lam4),
            forall|i: int, j: int| 0 <= i < l && 0 <= j < 256 ==> #[trigger] sig_z(s1, gamma1, lam4, i, j) == sig_z(s2, gamma1, lam4, i, j),
            hint_canonical(sig_hint_bytes(s1, gamma1, lam4, l), omega, k), hint_canonical(sig_hint_bytes(s2, gamma1, lam4, l), omega, k),
            forall|p: int, j: int| 0 <= p < k && 0 <= j < 256 ==> hint_has(sig_hint_bytes(s1, gamma1, lam4, l), omega, p, j) == hint_has(sig_hint_bytes(s2, gamma1, lam4, l), omega, p, j),
        ensures s1 == s2,
    {
        lemma_bitlen_consts();
        let st = z_step(gamma1); let c = 1 + spec_bitlen(gamma1 - 1);
        assert(st == 32 * c);
        assert(spec_bitlen(gamma1 - 1 + gamma1) == c);
        assert(l * st >= 0) by (nonlinear_arith) requires l >= 1, st >= 1;
        assert forall|i: int, j: int| 0 <= i < l && 0 <= j < 256 implies #[trigger] field(chunk(s1, lam4, st, i), c, j) == field(chunk(s2, lam4, st, i), c, j) by {
            assert(chunk(s1, lam4, st, i) == sig_z_bytes(s1, gamma1, lam4, i));
            assert(chunk(s2, lam4, st, i) == sig_z_bytes(s2, gamma1, lam4, i));
            assert(sig_z(s1, gamma1, lam4, i, j) == sig_z(s2, gamma1, lam4, i, j));
        }
        lemma_region_unique(s1, s2, lam4, st, l, c);
        let h1 = sig_hint_bytes(s1, gamma1, lam4, l); let h2 = sig_hint_bytes(s2, gamma1, lam4, l);
        lemma_hint_enc_unique(h1, h2, omega, k);
        let hb = lam4 + l * st;
        assert forall|m: int| 0 <= m < s1.len() implies s1[m] == s2[m] by {
            if m < lam4 { assert(s1.subrange(0, lam4)[m] == s1[m]); assert(s2.subrange(0, lam4)[m] == s2[m]); }
            else if m < hb { }
            else { assert(h1[m - hb] == s1[m]); assert(h2[m - hb] == s2[m]); }
        }
        assert(s1 =~= s2);
    }
    // an accepted attempt is not a rejected one
    pub proof fn lemma_accept_not_reject<const K: usize, const L: usize>(a: [[T; L]; K], sk: PrivateKey<K, L>, ys: Seq<Seq<int>>, c: R, sig: Seq<u8>,
            beta: int, gamma1: int, gamma2: int, omega: int, lam4: int)
        requires sign_attempt(a, sk, ys, c, sig, beta, gamma1, gamma2, omega, lam4),
        ensures !attempt_rejected(a, sk, ys, c, beta, gamma1, gamma2, omega),
    {
        reveal(attempt_rejected);
        let cs = poly_ints(c.0);
        if exists|l: int, n: int| 0 <= l < L && 0 <= n < 256 && #[trigger] rej_z(sk, ys, cs, l, n, gamma1 - beta) {
            let (l, n) = choose|l: int, n: int| 0 <= l < L && 0 <= n < 256 && #[trigger] rej_z(sk, ys, cs, l, n, gamma1 - beta);
            assert(sig_z(sig, gamma1, lam4, l, n) == mod_pm(ys[l][n] + cmul(cs, sk.s_1_hat_mont[l].0)[n], Q as int));
            assert(-(gamma1 - beta) < sig_z(sig, gamma1, lam4, l, n) < gamma1 - beta);
        }
        if exists|k: int, n: int| 0 <= k < K && 0 <= n < 256 && #[trigger] rej_r0(a, sk, ys, cs, k, n, gamma2, gamma2 - beta) {
            let (k, n) = choose|k: int, n: int| 0 <= k < K && 0 <= n < 256 && #[trigger] rej_r0(a, sk, ys, cs, k, n, gamma2, gamma2 - beta);
            assert(spec_abs(spec_low_bits(gamma2, sgn_w(a, ys, k)[n] - cmul(cs, sk.s_2_hat_mont[k].0)[n])) < gamma2 - beta);
        }
        if exists|k: int, n: int| 0 <= k < K && 0 <= n < 256 && #[trigger] rej_ct0(sk, cs, k, n, gamma2) {
            let (k, n) = choose|k: int, n: int| 0 <= k < K && 0 <= n < 256 && #[trigger] rej_ct0(sk, cs, k, n, gamma2);
            assert(spec_abs(mod_pm(cmul(cs, sk.t_0_hat_mont[k].0)[n], Q as int)) < gamma2);
        }
    }
    // C03: FIPS 204 Sign_internal, as specified by sign_spec, is a function: two byte strings of signature length with canonical hint sections
    // that satisfy sign_spec for the same (private key struct, mu, rnd) are equal
    pub proof fn lemma_sign_spec_det<const K: usize, const L: usize>(s1: Seq<u8>, s2: Seq<u8>, sk: PrivateKey<K, L>, mu: Seq<u8>, rnd: Seq<u8>,
            beta: int, gamma1: int, gamma2: int, omega: int, tau: int, lam4: int)
        requires gamma1_ok(gamma1), gamma2_ok(gamma2), 1 <= omega, 1 <= K <= 8, 1 <= L <= 8, 0 <= lam4 <= 64, tau >= 0,
            s1.len() == lam4 + L * z_step(gamma1) + omega + K, s2.len() == s1.len(),
            sign_spec(s1, sk, mu, rnd, beta, gamma1, gamma2, omega, tau, lam4), sign_spec(s2, sk, mu, rnd, beta, gamma1, gamma2, omega, tau, lam4),
            hint_canonical(sig_hint_bytes(s1, gamma1, lam4, L as int), omega, K as int), hint_canonical(sig_hint_bytes(s2, gamma1, lam4, L as int), omega, K as int),
        ensures s1 == s2,
    {
        let rhopp = sign_rhopp(sk.cap_k@, rnd, mu);
        let (a1, c1, k1) = choose|a: [[T; L]; K], c: R, kappa: int| #[trigger] sign_wit(sk, s1, tau, lam4, a, c, kappa)
            && sign_commit(a, mask_ys(rhopp, kappa, gamma1, L as int), mu, s1, gamma2, lam4)
            && sign_attempt(a, sk, mask_ys(rhopp, kappa, gamma1, L as int), c, s1, beta, gamma1, gamma2, omega, lam4)
            && all_rejected_before(a, sk, mu, rhopp, kappa, beta, gamma1, gamma2, omega, tau, lam4);
        let (a2, c2, k2) = choose|a: [[T; L]; K], c: R, kappa: int| #[trigger] sign_wit(sk, s2, tau, lam4, a, c, kappa)
            && sign_commit(a, mask_ys(rhopp, kappa, gamma1, L as int), mu, s2, gamma2, lam4)
            && sign_attempt(a, sk, mask_ys(rhopp, kappa, gamma1, L as int), c, s2, beta, gamma1, gamma2, omega, lam4)
            && all_rejected_before(a, sk, mu, rhopp, kappa, beta, gamma1, gamma2, omega, tau, lam4);
        assert(sign_wit(sk, s1, tau, lam4, a1, c1, k1) && sign_wit(sk, s2, tau, lam4, a2, c2, k2));
        lemma_expand_a_unique(sk.rho@, a1, a2);
        let y1 = mask_ys(rhopp, k1, gamma1, L as int); let y2 = mask_ys(rhopp, k2, gamma1, L as int);
        let f1 = sgn_w1fn(a1, y1, gamma2); let f2 = sgn_w1fn(a2, y2, gamma2);
        let w1 = choose|w1b: Seq<u8>| #[trigger] w1_fields_ok(w1b, gamma2, K as int, f1) && s1.subrange(0, lam4) == stream_take(shake256(mu + w1b), 0, lam4);
        let w2 = choose|w1b: Seq<u8>| #[trigger] w1_fields_ok(w1b, gamma2, K as int, f2) && s2.subrange(0, lam4) == stream_take(shake256(mu + w1b), 0, lam4);
        // the first accepted counter is the same
        if k1 < k2 {
            assert(rejected_at(a2, sk, mu, rhopp, k1, beta, gamma1, gamma2, omega, tau, lam4));
            let (wb, cc) = choose|wb: Seq<u8>, cc: R| #[trigger] rej_wit(a2, sk, mu, y1, wb, cc, beta, gamma1, gamma2, omega, tau, lam4);
            lemma_w1_unique(w1, wb, gamma2, K as int, f1);
            lemma_sib_unique(tau, shake256(s1.subrange(0, lam4)), c1, cc);
            lemma_accept_not_reject(a1, sk, y1, c1, s1, beta, gamma1, gamma2, omega, lam4);
        }
        if k2 < k1 {
            assert(rejected_at(a1, sk, mu, rhopp, k2, beta, gamma1, gamma2, omega, tau, lam4));
            let (wb, cc) = choose|wb: Seq<u8>, cc: R| #[trigger] rej_wit(a1, sk, mu, y2, wb, cc, beta, gamma1, gamma2, omega, tau, lam4);
            lemma_w1_unique(w2, wb, gamma2, K as int, f2);
            lemma_sib_unique(tau, shake256(s2.subrange(0, lam4)), c2, cc);
            lemma_accept_not_reject(a2, sk, y2, c2, s2, beta, gamma1, gamma2, omega, lam4);
        }
        assert(k1 == k2);
        // same commitment bytes, hence the same c~ and the same challenge
        lemma_w1_unique(w1, w2, gamma2, K as int, f1);
        assert(s1.subrange(0, lam4) == s2.subrange(0, lam4));
        lemma_sib_unique(tau, shake256(s1.subrange(0, lam4)), c1, c2);
        // same z fields and the same hint vector
        assert forall|i: int, j: int| 0 <= i < L && 0 <= j < 256 implies #[trigger] sig_z(s1, gamma1, lam4, i, j) == sig_z(s2, gamma1, lam4, i, j) by { }
        let hb1 = sig_hint_bytes(s1, gamma1, lam4, L as int); let hb2 = sig_hint_bytes(s2, gamma1, lam4, L as int);
        assert forall|p: int, j: int| 0 <= p < K && 0 <= j < 256 implies hint_has(hb1, omega, p, j) == hint_has(hb2, omega, p, j) by {
            assert(sig_h(s1, gamma1, lam4, L as int, omega, p, j) == sig_h(s2, gamma1, lam4, L as int, omega, p, j));
        }
        lemma_sig_bytes_unique(s1, s2, gamma1, omega, K as int, L as int, lam4);
    }
