    // ---- bit-level view of byte strings and of the ideal bit stream (FIPS 204 BytesToBits / IntegerToBits are little-endian)
    pub open spec fn p2(k: int) -> int { pow2(k as nat) as int }
    // value of the l bits f(s), f(s+1), ... (little endian)
    pub open spec fn bv(f: spec_fn(int) -> int, s: int, l: int) -> int
        decreases l
    {
        if l <= 0 { 0 } else { f(s) + 2 * bv(f, s + 1, l - 1) }
    }
    pub open spec fn is_bits(f: spec_fn(int) -> int) -> bool { forall|i: int| 0 <= #[trigger] f(i) <= 1 }

    pub proof fn lemma_bv_range(f: spec_fn(int) -> int, s: int, l: int)
        requires l >= 0, is_bits(f),
        ensures 0 <= bv(f, s, l) < p2(l),
        decreases l
    {
        if l == 0 { lemma2_to64(); } else {
            lemma_bv_range(f, s + 1, l - 1);
            lemma_pow2_unfold(l as nat);
            assert(0 <= f(s) <= 1);
        }
    }
    pub proof fn lemma_bv_split(f: spec_fn(int) -> int, s: int, l1: int, l2: int)
        requires l1 >= 0, l2 >= 0,
        ensures bv(f, s, l1 + l2) == bv(f, s, l1) + p2(l1) * bv(f, s + l1, l2),
        decreases l1
    {
        let x = bv(f, s + l1, l2);
        let pw = p2(l1);
        if l1 == 0 {
            lemma2_to64();
            assert(pw == 1);
            assert(bv(f, s, 0) == 0);
            assert(s + l1 == s);
            assert(l1 + l2 == l2);
            assert(pw * x == x) by (nonlinear_arith) requires pw == 1;
        } else {
            lemma_bv_split(f, s + 1, l1 - 1, l2);
            lemma_pow2_unfold(l1 as nat);
            let a = bv(f, s + 1, l1 - 1);
            let p = p2(l1 - 1);
            assert(l1 - 1 + l2 == l1 + l2 - 1);
            assert(s + 1 + (l1 - 1) == s + l1);
            assert(bv(f, s + 1, l1 + l2 - 1) == a + p * x);
            assert(bv(f, s, l1 + l2) == f(s) + 2 * bv(f, s + 1, l1 + l2 - 1));
            assert(bv(f, s, l1) == f(s) + 2 * a);
            assert(pw == 2 * p);
            assert(2 * (a + p * x) == 2 * a + pw * x) by (nonlinear_arith) requires pw == 2 * p;
        }
    }
    pub proof fn lemma_bv_ext(f: spec_fn(int) -> int, g: spec_fn(int) -> int, s: int, l: int)
        requires forall|i: int| s <= i < s + l ==> #[trigger] f(i) == g(i),
        ensures bv(f, s, l) == bv(g, s, l),
        decreases l
    {
        if l > 0 { lemma_bv_ext(f, g, s + 1, l - 1); }
    }
    // bit t of integer x
    pub open spec fn ibit(x: int, t: int) -> int { (x / p2(t)) % 2 }
    pub open spec fn ibitf(x: int) -> spec_fn(int) -> int { |t: int| ibit(x, t) }
    // the n low bits of x, taken from position `from`, reassemble (x / 2^from) mod 2^n
    pub proof fn lemma_int_bits(x: int, from: int, n: int)
        requires x >= 0, from >= 0, n >= 0,
        ensures bv(ibitf(x), from, n) == (x / p2(from)) % p2(n),
        decreases n
    {
        let f = ibitf(x);
        lemma2_to64();
        if n == 0 {
            assert(p2(0) == 1);
        } else {
            lemma_int_bits(x, from + 1, n - 1);
            lemma_pow2_unfold(n as nat);
            lemma_pow2_unfold((from + 1) as nat);
            lemma_pow2_pos(from as nat);
            lemma_pow2_pos((n - 1) as nat);
            let y = x / p2(from);
            let pn = p2(n - 1);
            // (x / 2^(from+1)) == y / 2
            assert(x / p2(from + 1) == y / 2) by {
                lemma_div_denominator(x, p2(from), 2);
                assert(p2(from + 1) == p2(from) * 2);
            }
            assert(f(from) == y % 2);
            assert(bv(f, from, n) == y % 2 + 2 * ((y / 2) % pn));
            // y % (2*pn) == y % 2 + 2 * ((y/2) % pn)
            assert(y % (2 * pn) == y % 2 + 2 * ((y / 2) % pn)) by {
                lemma_mod_breakdown(y, 2, pn);
            }
            assert(p2(n) == 2 * pn);
        }
    }

    pub proof fn lemma_int_bits_small(x: int, n: int)
        requires n >= 0, 0 <= x < p2(n),
        ensures bv(ibitf(x), 0, n) == x,
    {
        lemma_int_bits(x, 0, n);
        lemma2_to64();
        let d = p2(0);
        assert(d == 1);
        assert(x / d == x) by (nonlinear_arith) requires d == 1;
        lemma_small_mod(x as nat, p2(n) as nat);
    }
    pub proof fn lemma_bv_shift(f: spec_fn(int) -> int, s: int, g: spec_fn(int) -> int, s2: int, l: int)
        requires forall|i: int| 0 <= i < l ==> #[trigger] f(s + i) == g(s2 + i),
        ensures bv(f, s, l) == bv(g, s2, l),
        decreases l
    {
        if l > 0 {
            assert(f(s + 0) == g(s2 + 0));
            assert forall|i: int| 0 <= i < l - 1 implies #[trigger] f(s + 1 + i) == g(s2 + 1 + i) by {
                assert(f(s + (i + 1)) == g(s2 + (i + 1)));
                assert(s + (i + 1) == s + 1 + i);
                assert(s2 + (i + 1) == s2 + 1 + i);
            }
            lemma_bv_shift(f, s + 1, g, s2 + 1, l - 1);
        }
    }
    pub proof fn lemma_bv_unique_at(f: spec_fn(int) -> int, s: int, g: spec_fn(int) -> int, s2: int, l: int, i: int)
        requires is_bits(f), is_bits(g), 0 <= i < l, bv(f, s, l) == bv(g, s2, l),
        ensures f(s + i) == g(s2 + i),
        decreases l
    {
        assert(0 <= f(s) <= 1 && 0 <= g(s2) <= 1);
        let a = bv(f, s + 1, l - 1);
        let b = bv(g, s2 + 1, l - 1);
        assert(f(s) + 2 * a == g(s2) + 2 * b);
        assert(f(s) == g(s2));
        assert(a == b);
        if i > 0 {
            lemma_bv_unique_at(f, s + 1, g, s2 + 1, l - 1, i - 1);
            assert(s + 1 + (i - 1) == s + i);
            assert(s2 + 1 + (i - 1) == s2 + i);
        }
    }
    pub proof fn lemma_bv_unique(f: spec_fn(int) -> int, s: int, g: spec_fn(int) -> int, s2: int, l: int)
        requires is_bits(f), is_bits(g), l >= 0, bv(f, s, l) == bv(g, s2, l),
        ensures forall|i: int| 0 <= i < l ==> #[trigger] f(s + i) == g(s2 + i),
    {
        assert forall|i: int| 0 <= i < l implies #[trigger] f(s + i) == g(s2 + i) by { lemma_bv_unique_at(f, s, g, s2, l, i); }
    }
    pub proof fn lemma_ibit_is_bits(x: int)
        ensures is_bits(ibitf(x)),
    {
        let f = ibitf(x);
        assert forall|i: int| 0 <= #[trigger] f(i) <= 1 by { }
    }
    // ---- byte strings
    pub open spec fn bit(v: Seq<u8>, i: int) -> int { ibit(v[i / 8] as int, i % 8) }
    pub open spec fn byte_bitf(v: Seq<u8>) -> spec_fn(int) -> int { |i: int| bit(v, i) }
    pub open spec fn bits_val(v: Seq<u8>, s: int, l: int) -> int { bv(byte_bitf(v), s, l) }
    pub open spec fn field(v: Seq<u8>, c: int, j: int) -> int { bits_val(v, c * j, c) }

    pub proof fn lemma_bits_range(v: Seq<u8>, s: int, l: int)
        requires l >= 0,
        ensures 0 <= bits_val(v, s, l) < p2(l),
    {
        let f = byte_bitf(v);
        assert forall|i: int| 0 <= #[trigger] f(i) <= 1 by { }
        lemma_bv_range(f, s, l);
    }
    pub proof fn lemma_bits_split(v: Seq<u8>, s: int, l1: int, l2: int)
        requires l1 >= 0, l2 >= 0,
        ensures bits_val(v, s, l1 + l2) == bits_val(v, s, l1) + p2(l1) * bits_val(v, s + l1, l2),
    {
        lemma_bv_split(byte_bitf(v), s, l1, l2);
    }
    pub proof fn lemma_bits_byte(v: Seq<u8>, s: int)
        requires s % 8 == 0, 0 <= s,
        ensures bits_val(v, s, 8) == v[s / 8],
    {
        let x = v[s / 8] as int;
        let g = ibitf(x);
        let f = byte_bitf(v);
        assert forall|i: int| 0 <= i < 8 implies #[trigger] f(s + i) == g(0 + i) by {
            assert((s + i) / 8 == s / 8);
            assert((s + i) % 8 == i);
        }
        lemma_bv_shift(f, s, g, 0, 8);
        lemma2_to64();
        assert(p2(8) == 256);
        lemma_int_bits_small(x, 8);
    }
    // ---- the ideal bit stream of a sequence of c-bit values (FIPS 204 IntegerToBits, concatenated)
    pub open spec fn sbitf(vals: Seq<int>, c: int) -> spec_fn(int) -> int { |p: int| ibit(vals[p / c], p % c) }
    pub proof fn lemma_sbitf_is_bits(vals: Seq<int>, c: int)
        ensures is_bits(sbitf(vals, c)),
    {
        let f = sbitf(vals, c);
        assert forall|i: int| 0 <= #[trigger] f(i) <= 1 by { }
    }
    pub proof fn lemma_stream_field(vals: Seq<int>, c: int, j: int)
        requires c >= 1, j >= 0, 0 <= vals[j] < p2(c),
        ensures bv(sbitf(vals, c), c * j, c) == vals[j],
    {
        let x = vals[j];
        let g = ibitf(x);
        let f = sbitf(vals, c);
        assert forall|i: int| 0 <= i < c implies #[trigger] f(c * j + i) == g(0 + i) by {
            assert(c * j + i == j * c + i) by (nonlinear_arith);
            lemma_fundamental_div_mod_converse(c * j + i, c, j, i);
        }
        lemma_bv_shift(f, c * j, g, 0, c);
        lemma_int_bits_small(x, c);
    }
    // if every byte of `out` equals the corresponding 8 stream bits, then every field of `out` equals the stream's value
    pub proof fn lemma_bytes_carry_stream(out: Seq<u8>, vals: Seq<int>, c: int, j: int)
        requires c >= 1, j >= 0, 0 <= vals[j] < p2(c),
            forall|m: int| 0 <= m && 8 * m < c * j + c ==> #[trigger] out[m] as int == bv(sbitf(vals, c), 8 * m, 8),
        ensures field(out, c, j) == vals[j],
    {
        let sb = sbitf(vals, c);
        let f = byte_bitf(out);
        lemma_sbitf_is_bits(vals, c);
        assert(c * j >= 0) by (nonlinear_arith) requires c >= 1, j >= 0;
        assert forall|i: int| c * j <= i < c * j + c implies #[trigger] f(i) == sb(i) by {
            let m = i / 8;
            let t = i % 8;
            let x = out[m] as int;
            let g = ibitf(x);
            lemma_ibit_is_bits(x);
            lemma2_to64();
            assert(p2(8) == 256);
            lemma_int_bits_small(x, 8);
            assert(bv(g, 0, 8) == x);
            assert(out[m] as int == bv(sb, 8 * m, 8));
            lemma_bv_unique(g, 0, sb, 8 * m, 8);
            assert(g(0 + t) == sb(8 * m + t));
            assert(8 * m + t == i);
        }
        lemma_bv_ext(f, sb, c * j, c);
        lemma_stream_field(vals, c, j);
    }
    pub proof fn lemma_shl_p2_i32(k: i32)
        requires 0 <= k <= 30,
        ensures (1i32 << k) == p2(k as int), p2(k as int) > 0,
    {
        lemma2_to64();
        if k == 0 { assert((1i32 << 0i32) == 1i32) by (bit_vector); }
        if k == 1 { assert((1i32 << 1i32) == 2i32) by (bit_vector); }
        if k == 2 { assert((1i32 << 2i32) == 4i32) by (bit_vector); }
        if k == 3 { assert((1i32 << 3i32) == 8i32) by (bit_vector); }
        if k == 4 { assert((1i32 << 4i32) == 16i32) by (bit_vector); }
        if k == 5 { assert((1i32 << 5i32) == 32i32) by (bit_vector); }
        if k == 6 { assert((1i32 << 6i32) == 64i32) by (bit_vector); }
        if k == 7 { assert((1i32 << 7i32) == 128i32) by (bit_vector); }
        if k == 8 { assert((1i32 << 8i32) == 256i32) by (bit_vector); }
        if k == 9 { assert((1i32 << 9i32) == 512i32) by (bit_vector); }
        if k == 10 { assert((1i32 << 10i32) == 1024i32) by (bit_vector); }
        if k == 11 { assert((1i32 << 11i32) == 2048i32) by (bit_vector); }
        if k == 12 { assert((1i32 << 12i32) == 4096i32) by (bit_vector); }
        if k == 13 { assert((1i32 << 13i32) == 8192i32) by (bit_vector); }
        if k == 14 { assert((1i32 << 14i32) == 16384i32) by (bit_vector); }
        if k == 15 { assert((1i32 << 15i32) == 32768i32) by (bit_vector); }
        if k == 16 { assert((1i32 << 16i32) == 65536i32) by (bit_vector); }
        if k == 17 { assert((1i32 << 17i32) == 131072i32) by (bit_vector); }
        if k == 18 { assert((1i32 << 18i32) == 262144i32) by (bit_vector); }
        if k == 19 { assert((1i32 << 19i32) == 524288i32) by (bit_vector); }
        if k == 20 { assert((1i32 << 20i32) == 1048576i32) by (bit_vector); }
        if k == 21 { assert((1i32 << 21i32) == 2097152i32) by (bit_vector); }
        if k == 22 { assert((1i32 << 22i32) == 4194304i32) by (bit_vector); }
        if k == 23 { assert((1i32 << 23i32) == 8388608i32) by (bit_vector); }
        if k == 24 { assert((1i32 << 24i32) == 16777216i32) by (bit_vector); }
        if k == 25 { assert((1i32 << 25i32) == 33554432i32) by (bit_vector); }
        if k == 26 { assert((1i32 << 26i32) == 67108864i32) by (bit_vector); }
        if k == 27 { assert((1i32 << 27i32) == 134217728i32) by (bit_vector); }
        if k == 28 { assert((1i32 << 28i32) == 268435456i32) by (bit_vector); }
        if k == 29 { assert((1i32 << 29i32) == 536870912i32) by (bit_vector); }
        if k == 30 { assert((1i32 << 30i32) == 1073741824i32) by (bit_vector); }
    }
    pub proof fn lemma_shl_p2_u32(k: u32)
        requires k <= 31,
        ensures (1u32 << k) == p2(k as int), p2(k as int) > 0,
    {
        lemma2_to64();
        if k == 0 { assert((1u32 << 0u32) == 1u32) by (bit_vector); }
        if k == 1 { assert((1u32 << 1u32) == 2u32) by (bit_vector); }
        if k == 2 { assert((1u32 << 2u32) == 4u32) by (bit_vector); }
        if k == 3 { assert((1u32 << 3u32) == 8u32) by (bit_vector); }
        if k == 4 { assert((1u32 << 4u32) == 16u32) by (bit_vector); }
        if k == 5 { assert((1u32 << 5u32) == 32u32) by (bit_vector); }
        if k == 6 { assert((1u32 << 6u32) == 64u32) by (bit_vector); }
        if k == 7 { assert((1u32 << 7u32) == 128u32) by (bit_vector); }
        if k == 8 { assert((1u32 << 8u32) == 256u32) by (bit_vector); }
        if k == 9 { assert((1u32 << 9u32) == 512u32) by (bit_vector); }
        if k == 10 { assert((1u32 << 10u32) == 1024u32) by (bit_vector); }
        if k == 11 { assert((1u32 << 11u32) == 2048u32) by (bit_vector); }
        if k == 12 { assert((1u32 << 12u32) == 4096u32) by (bit_vector); }
        if k == 13 { assert((1u32 << 13u32) == 8192u32) by (bit_vector); }
        if k == 14 { assert((1u32 << 14u32) == 16384u32) by (bit_vector); }
        if k == 15 { assert((1u32 << 15u32) == 32768u32) by (bit_vector); }
        if k == 16 { assert((1u32 << 16u32) == 65536u32) by (bit_vector); }
        if k == 17 { assert((1u32 << 17u32) == 131072u32) by (bit_vector); }
        if k == 18 { assert((1u32 << 18u32) == 262144u32) by (bit_vector); }
        if k == 19 { assert((1u32 << 19u32) == 524288u32) by (bit_vector); }
        if k == 20 { assert((1u32 << 20u32) == 1048576u32) by (bit_vector); }
        if k == 21 { assert((1u32 << 21u32) == 2097152u32) by (bit_vector); }
        if k == 22 { assert((1u32 << 22u32) == 4194304u32) by (bit_vector); }
        if k == 23 { assert((1u32 << 23u32) == 8388608u32) by (bit_vector); }
        if k == 24 { assert((1u32 << 24u32) == 16777216u32) by (bit_vector); }
        if k == 25 { assert((1u32 << 25u32) == 33554432u32) by (bit_vector); }
        if k == 26 { assert((1u32 << 26u32) == 67108864u32) by (bit_vector); }
        if k == 27 { assert((1u32 << 27u32) == 134217728u32) by (bit_vector); }
        if k == 28 { assert((1u32 << 28u32) == 268435456u32) by (bit_vector); }
        if k == 29 { assert((1u32 << 29u32) == 536870912u32) by (bit_vector); }
        if k == 30 { assert((1u32 << 30u32) == 1073741824u32) by (bit_vector); }
        if k == 31 { assert((1u32 << 31u32) == 2147483648u32) by (bit_vector); }
    }
    // FIPS 204 Algorithm 14 (the integer before the z < q test)
    pub open spec fn spec_coeff3(b0: int, b1: int, b2: int) -> int { 65536 * (b2 % 128) + 256 * b1 + b0 }
    // FIPS 204 Algorithms 18/19: coefficient j of (Simple)BitUnpack(v, a, b): SimpleBitUnpack (a == 0) yields the field itself
    pub open spec fn spec_unpack_coef(v: Seq<u8>, a: int, b: int, j: int) -> int {
        let c = spec_bitlen(a + b);
        if a == 0 { field(v, c, j) } else { b - field(v, c, j) }
    }
    pub proof fn lemma_bitlen_bounds(x: int)
        requires 0 < x < 1_048_576,
        ensures 1 <= spec_bitlen(x) <= 20, p2(spec_bitlen(x) - 1) <= x < p2(spec_bitlen(x)),
        decreases x
    {
        lemma2_to64();
        if x == 1 {
            assert(spec_bitlen(1) == 1 + spec_bitlen(0));
        } else {
            lemma_bitlen_bounds(x / 2);
            let c = spec_bitlen(x / 2);
            lemma_pow2_unfold(c as nat);
            lemma_pow2_unfold((c + 1) as nat);
            lemma_pow2_strictly_increases(c as nat, 20);
        }
    }
    // ---- FIPS 204 Algorithm 21 (HintBitUnpack) as predicates over the byte string y = index bytes (omega) || counters (k)
    pub open spec fn hint_prev(y: Seq<u8>, omega: int, i: int) -> int { if i <= 0 { 0 } else { y[omega + i - 1] as int } }
    pub open spec fn hint_in_poly(y: Seq<u8>, omega: int, i: int, t: int) -> bool { hint_prev(y, omega, i) < t < y[omega + i] }
    // accepted exactly when: counters non-decreasing and <= omega, indices strictly increasing inside a polynomial, unused bytes zero
    pub open spec fn hint_canonical(y: Seq<u8>, omega: int, kk: int) -> bool {
        &&& forall|i: int| 0 <= i < kk ==> hint_prev(y, omega, i) <= #[trigger] y[omega + i] <= omega
        &&& forall|i: int, t: int| 0 <= i < kk && #[trigger] hint_in_poly(y, omega, i, t) ==> y[t - 1] < y[t]
        &&& forall|t: int| hint_prev(y, omega, kk) <= t < omega ==> #[trigger] y[t] == 0
    }
    pub open spec fn hint_has(y: Seq<u8>, omega: int, i: int, j: int) -> bool {
        exists|t: int| hint_prev(y, omega, i) <= t < y[omega + i] && #[trigger] y[t] == j
    }
    pub open spec fn hint_has_upto(y: Seq<u8>, lo: int, hi: int, j: int) -> bool {
        exists|t: int| lo <= t < hi && #[trigger] y[t] == j
    }
    // FIPS 204 Algorithms 16/17: the value written for coefficient w by (Simple)BitPack(w, a, b)
    pub open spec fn spec_pack_val(w: int, a: int, b: int) -> int { if a > 0 { b - w } else { w } }
    // number of non-zero coefficients among the first n (row-major) coefficients of a hint vector
    pub open spec fn hint_count(h: Seq<R>, n: int) -> int
        decreases n
    {
        if n <= 0 { 0 } else { hint_count(h, n - 1) + (if h[(n - 1) / 256].0[(n - 1) % 256] != 0 { 1int } else { 0int }) }
    }
    // ---- layouts of FIPS 204 Algorithms 22-27 (byte offsets inside pk / sk / sig)
    pub open spec fn eta_ok(eta: int) -> bool { eta == 2 || eta == 4 }
    pub open spec fn eta_step(eta: int) -> int { if eta == 2 { 96 } else { 128 } }       // 32 * bitlen(2*eta)
    pub open spec fn pk_t1_bytes(pk: Seq<u8>, i: int) -> Seq<u8> { pk.subrange(32 + 320 * i, 32 + 320 * (i + 1)) }
    pub open spec fn sk_s1_bytes(sk: Seq<u8>, eta: int, i: int) -> Seq<u8> {
        sk.subrange(128 + i * eta_step(eta), 128 + (i + 1) * eta_step(eta))
    }
    pub open spec fn sk_s2_bytes(sk: Seq<u8>, eta: int, l: int, i: int) -> Seq<u8> {
        sk.subrange(128 + l * eta_step(eta) + i * eta_step(eta), 128 + l * eta_step(eta) + (i + 1) * eta_step(eta))
    }
    pub open spec fn sk_t0_bytes(sk: Seq<u8>, eta: int, k: int, l: int, i: int) -> Seq<u8> {
        sk.subrange(128 + (l + k) * eta_step(eta) + i * 416, 128 + (l + k) * eta_step(eta) + (i + 1) * 416)
    }
    pub open spec fn sk_len_ok(sk_len: int, eta: int, k: int, l: int) -> bool {
        eta_ok(eta) && 1 <= k <= 8 && 1 <= l <= 8 && sk_len == 128 + (k + l) * eta_step(eta) + 416 * k
    }
    // C10: a private-key byte string is accepted exactly when every s1 / s2 field decodes into [-eta, eta]
    pub open spec fn sk_fields_ok(sk: Seq<u8>, eta: int, k: int, l: int) -> bool {
        &&& forall|i: int, j: int| 0 <= i < l && 0 <= j < 256 ==> -eta <= #[trigger] spec_unpack_coef(sk_s1_bytes(sk, eta, i), eta, eta, j) <= eta
        &&& forall|i: int, j: int| 0 <= i < k && 0 <= j < 256 ==> -eta <= #[trigger] spec_unpack_coef(sk_s2_bytes(sk, eta, l, i), eta, eta, j) <= eta
    }
    pub open spec fn gamma1_ok(g: int) -> bool { g == 131_072 || g == 524_288 }
    pub open spec fn z_step(gamma1: int) -> int { if gamma1 == 131_072 { 576 } else { 640 } }   // 32 * (1 + bitlen(gamma1 - 1))
    pub open spec fn sig_z_bytes(sig: Seq<u8>, gamma1: int, lam4: int, i: int) -> Seq<u8> {
        sig.subrange(lam4 + i * z_step(gamma1), lam4 + (i + 1) * z_step(gamma1))
    }
    pub open spec fn sig_hint_bytes(sig: Seq<u8>, gamma1: int, lam4: int, l: int) -> Seq<u8> {
        sig.subrange(lam4 + l * z_step(gamma1), sig.len() as int)
    }
    pub open spec fn sig_len_ok(sig_len: int, gamma1: int, omega: int, k: int, l: int, lam4: int) -> bool {
        gamma1_ok(gamma1) && 1 <= omega && 1 <= k <= 8 && 1 <= l <= 8 && omega + k < 256 && 0 <= lam4 <= 64
            && sig_len == lam4 + l * z_step(gamma1) + omega + k
    }
    pub proof fn lemma_bitlen_consts()
        ensures spec_bitlen(4) == 3, spec_bitlen(8) == 4, spec_bitlen(1023) == 10, spec_bitlen(8191) == 13,
            spec_bitlen(131_071) == 17, spec_bitlen(524_287) == 19, spec_bitlen(262_143) == 18, spec_bitlen(1_048_575) == 20,
            spec_bitlen(8_380_416) == 23, spec_bitlen(43) == 6, spec_bitlen(15) == 4,
    {
        assert(spec_bitlen(4) == 3) by (compute);
        assert(spec_bitlen(8) == 4) by (compute);
        assert(spec_bitlen(1023) == 10) by (compute);
        assert(spec_bitlen(8191) == 13) by (compute);
        assert(spec_bitlen(131_071) == 17) by (compute);
        assert(spec_bitlen(524_287) == 19) by (compute);
        assert(spec_bitlen(262_143) == 18) by (compute);
        assert(spec_bitlen(1_048_575) == 20) by (compute);
        assert(spec_bitlen(8_380_416) == 23) by (compute);
        assert(spec_bitlen(43) == 6) by (compute);
        assert(spec_bitlen(15) == 4) by (compute);
    }
    // a field always lies in [0, 2^c): when a + b + 1 == 2^c every decoded coefficient b - field is inside [-a, b]
    pub proof fn lemma_unpack_full_range(v: Seq<u8>, a: int, b: int, j: int)
        requires a >= 1, b >= 1, 0 < a + b < 1_048_576, a + b + 1 == p2(spec_bitlen(a + b)), j >= 0,
        ensures -a <= spec_unpack_coef(v, a, b, j) <= b,
    {
        let c = spec_bitlen(a + b);
        lemma_bitlen_bounds(a + b);
        lemma_bits_range(v, c * j, c);
    }
    pub proof fn lemma_simple_unpack_full_range(v: Seq<u8>, b: int, j: int)
        requires b >= 1, 0 < b < 1_048_576, b + 1 == p2(spec_bitlen(b)), j >= 0,
        ensures 0 <= spec_unpack_coef(v, 0, b, j) <= b,
    {
        let c = spec_bitlen(b);
        lemma_bitlen_bounds(b);
        lemma_bits_range(v, c * j, c);
    }
    pub open spec fn w1_step(gamma2: int) -> int { if gamma2 == 95_232 { 192 } else { 128 } }   // 32 * bitlen((q-1)/(2 gamma2) - 1)
    pub open spec fn w1_bytes(w: Seq<u8>, gamma2: int, i: int) -> Seq<u8> { w.subrange(i * w1_step(gamma2), (i + 1) * w1_step(gamma2)) }
    // frame lemma: bytes outside [lo, hi) unchanged => any sub-range disjoint from [lo, hi) is unchanged
    pub proof fn lemma_subrange_frame(a: Seq<u8>, b: Seq<u8>, from: int, to: int, lo: int, hi: int)
        requires a.len() == b.len(), 0 <= from <= to <= a.len(), to <= lo || hi <= from,
            forall|x: int| 0 <= x < lo && x < a.len() ==> a[x] == b[x],
            forall|x: int| hi <= x < a.len() && 0 <= x ==> a[x] == b[x],
        ensures a.subrange(from, to) == b.subrange(from, to),
    {
        assert(a.subrange(from, to) =~= b.subrange(from, to));
    }
    pub proof fn lemma_mul_step(p: int, i: int, st: int)
        requires 0 <= p < i, st >= 0,
        ensures 0 <= p * st, (p + 1) * st == p * st + st, (p + 1) * st <= i * st,
    {
        assert(0 <= p * st) by (nonlinear_arith) requires p >= 0, st >= 0;
        assert((p + 1) * st == p * st + st) by (nonlinear_arith);
        assert((p + 1) * st <= i * st) by (nonlinear_arith) requires p < i, st >= 0;
    }
    // ---- the fields determine the bytes (so pack(unpack(v)) == v, and an encoding is unique)
    pub proof fn lemma_bit_of_field(v: Seq<u8>, c: int, j: int, t: int)
        requires c >= 1, j >= 0, 0 <= t < c,
        ensures bit(v, c * j + t) == ibit(field(v, c, j), t),
    {
        let x = field(v, c, j);
        let f = byte_bitf(v);
        lemma_bits_range(v, c * j, c);
        lemma_int_bits_small(x, c);
        assert forall|i: int| 0 <= #[trigger] f(i) <= 1 by { }
        lemma_ibit_is_bits(x);
        lemma_bv_unique(f, c * j, ibitf(x), 0, c);
        assert(f(c * j + t) == ibitf(x)(0 + t));
    }
    pub proof fn lemma_fields_determine_bytes(v1: Seq<u8>, v2: Seq<u8>, c: int)
        requires 1 <= c, v1.len() == 32 * c, v2.len() == 32 * c,
            forall|j: int| 0 <= j < 256 ==> #[trigger] field(v1, c, j) == field(v2, c, j),
        ensures v1 == v2,
    {
        let f1 = byte_bitf(v1); let f2 = byte_bitf(v2);
        assert forall|m: int| 0 <= m < 32 * c implies v1[m] == v2[m] by {
            assert forall|i: int| 8 * m <= i < 8 * m + 8 implies #[trigger] f1(i) == f2(i) by {
                let j = i / c; let t = i % c;
                lemma_fundamental_div_mod(i, c);
                assert(i == c * j + t);
                assert(0 <= t < c);
                assert(j >= 0) by (nonlinear_arith) requires i == c * j + t, 0 <= t < c, i >= 0, c >= 1;
                assert(j < 256) by (nonlinear_arith) requires i == c * j + t, 0 <= t, i < 256 * c, c >= 1;
                lemma_bit_of_field(v1, c, j, t);
                lemma_bit_of_field(v2, c, j, t);
            }
            lemma_bv_ext(f1, f2, 8 * m, 8);
            lemma_bits_byte(v1, 8 * m);
            lemma_bits_byte(v2, 8 * m);
            assert((8 * m) / 8 == m);
        }
        assert(v1 =~= v2);
    }
    pub proof fn lemma_hint_count_mono(h: Seq<R>, a: int, b: int)
        requires 0 <= a <= b,
        ensures hint_count(h, a) <= hint_count(h, b),
        decreases b - a
    {
        if a < b { lemma_hint_count_mono(h, a, b - 1); }
    }
    // trigger helper: position t lies in the index segment of polynomial p
    pub open spec fn hint_seg(h: Seq<R>, p: int, t: int) -> bool { hint_count(h, 256 * p) <= t < hint_count(h, 256 * (p + 1)) }
