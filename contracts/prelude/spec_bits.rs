    // ---- bit-level view of byte strings (FIPS 204 BytesToBits is little-endian within each byte)
    pub open spec fn bit(v: Seq<u8>, i: int) -> int {
        (v[i / 8] as int / pow2((i % 8) as nat) as int) % 2
    }
    pub open spec fn bits_val(v: Seq<u8>, s: int, l: int) -> int
        decreases l
    {
        if l <= 0 { 0 } else { bit(v, s) + 2 * bits_val(v, s + 1, l - 1) }
    }
    pub open spec fn field(v: Seq<u8>, c: int, j: int) -> int { bits_val(v, c * j, c) }

    pub proof fn lemma_bits_range(v: Seq<u8>, s: int, l: int)
        requires l >= 0,
        ensures 0 <= bits_val(v, s, l) < pow2(l as nat),
        decreases l
    {
        if l == 0 { lemma2_to64(); } else {
            lemma_bits_range(v, s + 1, l - 1);
            lemma_pow2_unfold(l as nat);
        }
    }
    pub proof fn lemma_bits_split(v: Seq<u8>, s: int, l1: int, l2: int)
        requires l1 >= 0, l2 >= 0,
        ensures bits_val(v, s, l1 + l2) == bits_val(v, s, l1) + pow2(l1 as nat) * bits_val(v, s + l1, l2),
        decreases l1
    {
        let x = bits_val(v, s + l1, l2);
        let pw = pow2(l1 as nat) as int;
        if l1 == 0 {
            lemma2_to64();
            assert(pw == 1);
            assert(bits_val(v, s, 0) == 0);
            assert(s + l1 == s);
            assert(l1 + l2 == l2);
            assert(pw * x == x) by (nonlinear_arith) requires pw == 1;
        } else {
            lemma_bits_split(v, s + 1, l1 - 1, l2);
            lemma_pow2_unfold(l1 as nat);
            let a = bits_val(v, s + 1, l1 - 1);
            let p = pow2((l1 - 1) as nat) as int;
            assert(l1 - 1 + l2 == l1 + l2 - 1);
            assert(s + 1 + (l1 - 1) == s + l1);
            assert(bits_val(v, s + 1, l1 + l2 - 1) == a + p * x);
            assert(bits_val(v, s, l1 + l2) == bit(v, s) + 2 * bits_val(v, s + 1, l1 + l2 - 1));
            assert(bits_val(v, s, l1) == bit(v, s) + 2 * a);
            assert(pw == 2 * p);
            assert(2 * (a + p * x) == 2 * a + pw * x) by (nonlinear_arith) requires pw == 2 * p;
        }
    }
    pub proof fn lemma_byte_bits(x: int)
        requires 0 <= x < 256,
        ensures x == (x % 2) + 2 * ((x / 2) % 2) + 4 * ((x / 4) % 2) + 8 * ((x / 8) % 2) + 16 * ((x / 16) % 2) + 32 * ((x / 32) % 2) + 64 * ((x / 64) % 2) + 128 * ((x / 128) % 2),
    {
        let y = x as u32;
        assert(y == (y % 2) + 2 * ((y / 2) % 2) + 4 * ((y / 4) % 2) + 8 * ((y / 8) % 2) + 16 * ((y / 16) % 2) + 32 * ((y / 32) % 2) + 64 * ((y / 64) % 2) + 128 * ((y / 128) % 2)) by (bit_vector)
            requires y < 256;
    }
    pub proof fn lemma_bit_at(v: Seq<u8>, s: int, t: int, p: int)
        requires s % 8 == 0, 0 <= s, 0 <= t < 8, p == pow2(t as nat),
        ensures bit(v, s + t) == (v[s / 8] as int / p) % 2,
    {
        assert((s + t) / 8 == s / 8);
        assert((s + t) % 8 == t);
    }
    pub proof fn lemma_bits_byte(v: Seq<u8>, s: int)
        requires s % 8 == 0, 0 <= s, s / 8 < v.len(),
        ensures bits_val(v, s, 8) == v[s / 8],
    {
        lemma2_to64();
        let x = v[s / 8] as int;
        lemma_byte_bits(x);
        reveal_with_fuel(bits_val, 9);
        lemma_bit_at(v, s, 0, 1); lemma_bit_at(v, s, 1, 2); lemma_bit_at(v, s, 2, 4); lemma_bit_at(v, s, 3, 8);
        lemma_bit_at(v, s, 4, 16); lemma_bit_at(v, s, 5, 32); lemma_bit_at(v, s, 6, 64); lemma_bit_at(v, s, 7, 128);
        assert(bit(v, s) == x % 2);
        assert(bit(v, s + 1) == (x / 2) % 2);
        assert(bit(v, s + 2) == (x / 4) % 2);
        assert(bit(v, s + 3) == (x / 8) % 2);
        assert(bit(v, s + 4) == (x / 16) % 2);
        assert(bit(v, s + 5) == (x / 32) % 2);
        assert(bit(v, s + 6) == (x / 64) % 2);
        assert(bit(v, s + 7) == (x / 128) % 2);
    }
    pub open spec fn p2(k: int) -> int { pow2(k as nat) as int }
    pub proof fn lemma_shl_p2_i32(k: i32)
        requires 0 <= k <= 30,
        ensures (1i32 << k) == p2(k as int), p2(k as int) > 0,
    {
        lemma2_to64();
        if k == 0 { assert((1i32 << 0i32) == 1i32) by (bit_vector); }
        if k == 1 { assert((1i32 << 1i32) == 2i32) by (bit_vector); }
        if k == 2 { assert((1i32 << 2i32) == 4i32) by (bit_vector); }
        if k == 3 { assert((1i32 << 3i32) == 8i32) by (bit_vector); }
        if k == 4 { assert((1i32 << 4i32) == 16i32) by (bit_vector); }
        if k == 5 { assert((1i32 << 5i32) == 32i32) by (bit_vector); }
        if k == 6 { assert((1i32 << 6i32) == 64i32) by (bit_vector); }
        if k == 7 { assert((1i32 << 7i32) == 128i32) by (bit_vector); }
        if k == 8 { assert((1i32 << 8i32) == 256i32) by (bit_vector); }
        if k == 9 { assert((1i32 << 9i32) == 512i32) by (bit_vector); }
        if k == 10 { assert((1i32 << 10i32) == 1024i32) by (bit_vector); }
        if k == 11 { assert((1i32 << 11i32) == 2048i32) by (bit_vector); }
        if k == 12 { assert((1i32 << 12i32) == 4096i32) by (bit_vector); }
        if k == 13 { assert((1i32 << 13i32) == 8192i32) by (bit_vector); }
        if k == 14 { assert((1i32 << 14i32) == 16384i32) by (bit_vector); }
        if k == 15 { assert((1i32 << 15i32) == 32768i32) by (bit_vector); }
        if k == 16 { assert((1i32 << 16i32) == 65536i32) by (bit_vector); }
        if k == 17 { assert((1i32 << 17i32) == 131072i32) by (bit_vector); }
        if k == 18 { assert((1i32 << 18i32) == 262144i32) by (bit_vector); }
        if k == 19 { assert((1i32 << 19i32) == 524288i32) by (bit_vector); }
        if k == 20 { assert((1i32 << 20i32) == 1048576i32) by (bit_vector); }
        if k == 21 { assert((1i32 << 21i32) == 2097152i32) by (bit_vector); }
        if k == 22 { assert((1i32 << 22i32) == 4194304i32) by (bit_vector); }
        if k == 23 { assert((1i32 << 23i32) == 8388608i32) by (bit_vector); }
        if k == 24 { assert((1i32 << 24i32) == 16777216i32) by (bit_vector); }
        if k == 25 { assert((1i32 << 25i32) == 33554432i32) by (bit_vector); }
        if k == 26 { assert((1i32 << 26i32) == 67108864i32) by (bit_vector); }
        if k == 27 { assert((1i32 << 27i32) == 134217728i32) by (bit_vector); }
        if k == 28 { assert((1i32 << 28i32) == 268435456i32) by (bit_vector); }
        if k == 29 { assert((1i32 << 29i32) == 536870912i32) by (bit_vector); }
        if k == 30 { assert((1i32 << 30i32) == 1073741824i32) by (bit_vector); }
    }
    pub proof fn lemma_shl_p2_u32(k: u32)
        requires k <= 31,
        ensures (1u32 << k) == p2(k as int), p2(k as int) > 0,
    {
        lemma2_to64();
        if k == 0 { assert((1u32 << 0u32) == 1u32) by (bit_vector); }
        if k == 1 { assert((1u32 << 1u32) == 2u32) by (bit_vector); }
        if k == 2 { assert((1u32 << 2u32) == 4u32) by (bit_vector); }
        if k == 3 { assert((1u32 << 3u32) == 8u32) by (bit_vector); }
        if k == 4 { assert((1u32 << 4u32) == 16u32) by (bit_vector); }
        if k == 5 { assert((1u32 << 5u32) == 32u32) by (bit_vector); }
        if k == 6 { assert((1u32 << 6u32) == 64u32) by (bit_vector); }
        if k == 7 { assert((1u32 << 7u32) == 128u32) by (bit_vector); }
        if k == 8 { assert((1u32 << 8u32) == 256u32) by (bit_vector); }
        if k == 9 { assert((1u32 << 9u32) == 512u32) by (bit_vector); }
        if k == 10 { assert((1u32 << 10u32) == 1024u32) by (bit_vector); }
        if k == 11 { assert((1u32 << 11u32) == 2048u32) by (bit_vector); }
        if k == 12 { assert((1u32 << 12u32) == 4096u32) by (bit_vector); }
        if k == 13 { assert((1u32 << 13u32) == 8192u32) by (bit_vector); }
        if k == 14 { assert((1u32 << 14u32) == 16384u32) by (bit_vector); }
        if k == 15 { assert((1u32 << 15u32) == 32768u32) by (bit_vector); }
        if k == 16 { assert((1u32 << 16u32) == 65536u32) by (bit_vector); }
        if k == 17 { assert((1u32 << 17u32) == 131072u32) by (bit_vector); }
        if k == 18 { assert((1u32 << 18u32) == 262144u32) by (bit_vector); }
        if k == 19 { assert((1u32 << 19u32) == 524288u32) by (bit_vector); }
        if k == 20 { assert((1u32 << 20u32) == 1048576u32) by (bit_vector); }
        if k == 21 { assert((1u32 << 21u32) == 2097152u32) by (bit_vector); }
        if k == 22 { assert((1u32 << 22u32) == 4194304u32) by (bit_vector); }
        if k == 23 { assert((1u32 << 23u32) == 8388608u32) by (bit_vector); }
        if k == 24 { assert((1u32 << 24u32) == 16777216u32) by (bit_vector); }
        if k == 25 { assert((1u32 << 25u32) == 33554432u32) by (bit_vector); }
        if k == 26 { assert((1u32 << 26u32) == 67108864u32) by (bit_vector); }
        if k == 27 { assert((1u32 << 27u32) == 134217728u32) by (bit_vector); }
        if k == 28 { assert((1u32 << 28u32) == 268435456u32) by (bit_vector); }
        if k == 29 { assert((1u32 << 29u32) == 536870912u32) by (bit_vector); }
        if k == 30 { assert((1u32 << 30u32) == 1073741824u32) by (bit_vector); }
        if k == 31 { assert((1u32 << 31u32) == 2147483648u32) by (bit_vector); }
    }
    // FIPS 204 Algorithm 14 (the integer before the z < q test)
    pub open spec fn spec_coeff3(b0: int, b1: int, b2: int) -> int { 65536 * (b2 % 128) + 256 * b1 + b0 }
    // FIPS 204 Algorithms 18/19: coefficient j of (Simple)BitUnpack(v, a, b): SimpleBitUnpack (a == 0) yields the field itself
    pub open spec fn spec_unpack_coef(v: Seq<u8>, a: int, b: int, j: int) -> int {
        let c = spec_bitlen(a + b);
        if a == 0 { field(v, c, j) } else { b - field(v, c, j) }
    }
    pub proof fn lemma_bitlen_bounds(x: int)
        requires 0 < x < 1_048_576,
        ensures 1 <= spec_bitlen(x) <= 20, p2(spec_bitlen(x) - 1) <= x < p2(spec_bitlen(x)),
        decreases x
    {
        lemma2_to64();
        if x == 1 {
            assert(spec_bitlen(1) == 1 + spec_bitlen(0));
        } else {
            lemma_bitlen_bounds(x / 2);
            let c = spec_bitlen(x / 2);
            lemma_pow2_unfold(c as nat);
            lemma_pow2_unfold((c + 1) as nat);
            lemma_pow2_strictly_increases(c as nat, 20);
        }
    }
