    pub open spec fn cong(a: int, b: int) -> bool { (a - b) % (Q as int) == 0 }
    // r is a Montgomery reduction of a: r * 2^32 == a (mod q). Named so that proofs about call results can trigger on it.
    pub open spec fn mont_rel(r: int, a: int) -> bool { cong(r * 4_294_967_296, a) }
    // r is the Montgomery form of (something congruent to) s
    pub open spec fn mont_of(r: int, s: int) -> bool { cong(r, s * 4_294_967_296) }

    // FIPS 204 section 2.3: m mod+- alpha, the representative in (-alpha/2, alpha/2]
    pub open spec fn mod_pm(m: int, alpha: int) -> int {
        let r = m % alpha;
        if r > alpha / 2 { r - alpha } else { r }
    }

    pub open spec fn gamma2_ok(g: int) -> bool { g == 95_232 || g == 261_888 }
    pub open spec fn in_red_dom(a: int) -> bool { -2_143_289_344 < a < 2_143_289_344 }
    // FIPS 204 Algorithm 35
    pub open spec fn spec_power2round(r: int) -> (int, int) {
        let rp = r % (Q as int);
        let r0 = mod_pm(rp, 8192);
        ((rp - r0) / 8192, r0)
    }
    // FIPS 204 Algorithm 36
    pub open spec fn spec_decompose(gamma2: int, r: int) -> (int, int) {
        let rp = r % (Q as int);
        let r0 = mod_pm(rp, 2 * gamma2);
        if rp - r0 == Q - 1 { (0int, r0 - 1) } else { ((rp - r0) / (2 * gamma2), r0) }
    }
    // Algorithms 37-40
    pub open spec fn spec_high_bits(gamma2: int, r: int) -> int { spec_decompose(gamma2, r).0 }
    pub open spec fn spec_low_bits(gamma2: int, r: int) -> int { spec_decompose(gamma2, r).1 }
    pub open spec fn spec_make_hint(gamma2: int, z: int, r: int) -> bool {
        spec_high_bits(gamma2, r) != spec_high_bits(gamma2, r + z)
    }
    pub open spec fn spec_use_hint(gamma2: int, h: int, r: int) -> int {
        let m = (Q - 1) / (2 * gamma2);
        let (r1, r0) = spec_decompose(gamma2, r);
        if h == 1 && r0 > 0 { (r1 + 1) % m } else if h == 1 && r0 <= 0 { (r1 - 1) % m } else { r1 }
    }
    pub proof fn lemma_power2round_all()
        ensures forall|x: int| 0 <= x < Q ==> {
            let r1 = (x + 4095) / 8192;
            &&& #[trigger] spec_power2round(x).0 == r1
            &&& spec_power2round(x).1 == x - r1 * 8192
            &&& 0 <= r1 <= 1023
            &&& -4095 <= x - r1 * 8192 <= 4096 }
    {
        assert forall|x: int| 0 <= x < Q implies {
            let r1 = (x + 4095) / 8192;
            &&& #[trigger] spec_power2round(x).0 == r1
            &&& spec_power2round(x).1 == x - r1 * 8192
            &&& 0 <= r1 <= 1023
            &&& -4095 <= x - r1 * 8192 <= 4096 } by {
            let r1 = (x + 4095) / 8192;
            let m = x % 8192;
            assert(x % (Q as int) == x);
            assert(x == 8192 * (x / 8192) + m);
        }
    }
    pub open spec fn spec_abs(x: int) -> int { if x < 0 { -x } else { x } }
    // zeta^j mod q (FIPS 204 section 2.5: zeta = 1753)
    pub open spec fn zpow(j: int) -> int decreases j { if j <= 0 { 1 } else { (zpow(j - 1) * 1753) % (Q as int) } }
    // Algorithm 43 BitRev8
    pub open spec fn brv8(x: u8) -> u8 {
        ((x & 1) << 7) | ((x & 2) << 5) | ((x & 4) << 3) | ((x & 8) << 1) | ((x & 16) >> 1) | ((x & 32) >> 3) | ((x & 64) >> 5) | ((x & 128) >> 7)
    }
    // ---- NTT loop structure (Algorithm 41/42): layer k has len = 128 >> k (forward) / 1 << k (inverse)
    pub open spec fn pbounded_t(w: T, lo: int, hi: int, b: int) -> bool {
        forall|i: int| lo <= i < hi ==> -b <= #[trigger] w.0[i] <= b
    }
    pub open spec fn pbounded_r(w: R, lo: int, hi: int, b: int) -> bool {
        forall|i: int| lo <= i < hi ==> -b <= #[trigger] w.0[i] <= b
    }
    pub open spec fn ntt_layer_ok(k: int, len: int, m: int) -> bool {
        (k == 0 && len == 128 && m == 0) || (k == 1 && len == 64 && m == 1) || (k == 2 && len == 32 && m == 3) || (k == 3 && len == 16 && m == 7)
        || (k == 4 && len == 8 && m == 15) || (k == 5 && len == 4 && m == 31) || (k == 6 && len == 2 && m == 63) || (k == 7 && len == 1 && m == 127)
        || (k == 8 && len == 0 && m == 255)
    }
    pub open spec fn ntt_mid_ok(k: int, start: int, m: int) -> bool {
        (k == 0 && start == (m - 0) * 256) || (k == 1 && start == (m - 1) * 128) || (k == 2 && start == (m - 3) * 64) || (k == 3 && start == (m - 7) * 32)
        || (k == 4 && start == (m - 15) * 16) || (k == 5 && start == (m - 31) * 8) || (k == 6 && start == (m - 63) * 4) || (k == 7 && start == (m - 127) * 2)
    }
    pub open spec fn intt_layer_ok(k: int, len: int, m: int) -> bool {
        (k == 0 && len == 1 && m == 256) || (k == 1 && len == 2 && m == 128) || (k == 2 && len == 4 && m == 64) || (k == 3 && len == 8 && m == 32)
        || (k == 4 && len == 16 && m == 16) || (k == 5 && len == 32 && m == 8) || (k == 6 && len == 64 && m == 4) || (k == 7 && len == 128 && m == 2)
        || (k == 8 && len == 256 && m == 1)
    }
