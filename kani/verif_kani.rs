// Kani harnesses, spliced into a SCRATCH COPY of the crate as `#[cfg(kani)] mod verif_kani;` (never into /repo).
// Every harness is loop-free over the full machine domain stated in its comment unless marked BOUNDED, and checks the
// real function against a spec-literal transcription of the FIPS 204 definition (Euclidean `rem_euclid`, `/`).
#![allow(dead_code, unused_imports, clippy::all)]
use crate::conversion::{coeff_from_half_byte, coeff_from_three_bytes};
use crate::helpers::*;
use crate::high_low::*;
use crate::Q;

const QL: i64 = Q as i64;

// ---------------------------------------------------------------- spec-literal definitions (FIPS 204)
fn s_mod_pm(m: i64, alpha: i64) -> i64 {
    let r = m.rem_euclid(alpha);
    if r > alpha / 2 { r - alpha } else { r }
}
// Algorithm 36
fn s_decompose(gamma2: i64, r: i64) -> (i64, i64) {
    let rp = r.rem_euclid(QL);
    let r0 = s_mod_pm(rp, 2 * gamma2);
    if rp - r0 == QL - 1 { (0, r0 - 1) } else { ((rp - r0) / (2 * gamma2), r0) }
}
// Algorithm 39
fn s_make_hint(gamma2: i64, z: i64, r: i64) -> bool { s_decompose(gamma2, r).0 != s_decompose(gamma2, r + z).0 }
// Algorithm 40
fn s_use_hint(gamma2: i64, h: i64, r: i64) -> i64 {
    let m = (QL - 1) / (2 * gamma2);
    let (r1, r0) = s_decompose(gamma2, r);
    if h == 1 && r0 > 0 { (r1 + 1).rem_euclid(m) } else if h == 1 && r0 <= 0 { (r1 - 1).rem_euclid(m) } else { r1 }
}
fn any_gamma2() -> i32 {
    let g: bool = kani::any();
    if g { (Q - 1) / 88 } else { (Q - 1) / 32 }
}
fn in_reduce_domain(a: i32) -> bool { a > -2_143_289_344 && a < 2_143_289_344 }

// ---------------------------------------------------------------- C15 scalar kernels
/// center_mod == mod+- q on the whole documented domain
#[kani::proof]
fn k_center_mod() {
    let m: i32 = kani::any();
    kani::assume(in_reduce_domain(m));
    kani::cover!(m == 4_190_209);
    let r = center_mod(m);
    assert!(r as i64 == s_mod_pm(m as i64, QL));
}

/// decompose == Algorithm 36 for both gamma2 and every r in the reduction domain (incl. the r+ - r0 = q-1 corner)
#[kani::proof]
fn k_decompose() {
    let g = any_gamma2();
    let r: i32 = kani::any();
    kani::assume(in_reduce_domain(r));
    kani::cover!(r == 8_285_185 && g == 95_232);
    let (r1, r0) = decompose(g, r);
    let (s1, s0) = s_decompose(g as i64, r as i64);
    assert!(r1 as i64 == s1);
    assert!(r0 as i64 == s0);
    assert!(0 <= r1 && (r1 as i64) < (QL - 1) / (2 * g as i64));
    assert!(-(g as i64) <= r0 as i64 && r0 <= g);
}

#[kani::proof]
fn k_high_low_bits() {
    let g = any_gamma2();
    let r: i32 = kani::any();
    kani::assume(in_reduce_domain(r));
    let (s1, s0) = s_decompose(g as i64, r as i64);
    assert!(high_bits(g, r) as i64 == s1);
    assert!(low_bits(g, r) as i64 == s0);
}

/// make_hint == Algorithm 39 whenever r and r+z are inside the reduction domain
#[kani::proof]
fn k_make_hint() {
    let g = any_gamma2();
    let r: i32 = kani::any();
    let z: i32 = kani::any();
    kani::assume(in_reduce_domain(r) && in_reduce_domain(z));
    kani::assume(in_reduce_domain(r.wrapping_add(z)) && (r as i64 + z as i64 == r.wrapping_add(z) as i64));
    kani::cover!(z > Q && r < 0);
    assert!(make_hint(g, z, r) == s_make_hint(g as i64, z as i64, r as i64));
}

/// use_hint == Algorithm 40 for h in {0,1}
#[kani::proof]
fn k_use_hint() {
    let g = any_gamma2();
    let r: i32 = kani::any();
    let h: i32 = kani::any();
    kani::assume(in_reduce_domain(r) && (h == 0 || h == 1));
    kani::cover!(h == 1 && r == 0);
    let u = use_hint(g, h, r);
    assert!(u as i64 == s_use_hint(g as i64, h as i64, r as i64));
    assert!(0 <= u && (u as i64) < (QL - 1) / (2 * g as i64));
}

/// CoeffFromThreeBytes (normal mode) == Algorithm 14 on all 2^24 inputs
#[kani::proof]
fn k_coeff3() {
    let b: [u8; 3] = kani::any();
    let z: i64 = 65536 * ((b[2] as i64) % 128) + 256 * (b[1] as i64) + (b[0] as i64);
    kani::cover!(z == QL - 1);
    kani::cover!(z == QL);
    match coeff_from_three_bytes::<false>(b) {
        Ok(v) => assert!(z < QL && v as i64 == z),
        Err(_) => assert!(z >= QL),
    }
}
/// test mode: never outside [0,q)
#[kani::proof]
fn k_coeff3_ctest() {
    let b: [u8; 3] = kani::any();
    if let Ok(v) = coeff_from_three_bytes::<true>(b) { assert!(0 <= v && v < Q); }
}

/// CoeffFromHalfByte (normal mode) == Algorithm 15 for eta in {2,4}, b in 0..16
#[kani::proof]
fn k_coeff_half() {
    let e: bool = kani::any();
    let eta: i32 = if e { 2 } else { 4 };
    let b: u8 = kani::any();
    kani::assume(b < 16);
    kani::cover!(eta == 2 && b == 14);
    let r = coeff_from_half_byte::<false>(eta, b);
    if eta == 2 && b < 15 {
        assert!(r == Ok(2 - (b as i32 % 5)));
    } else if eta == 4 && b < 9 {
        assert!(r == Ok(4 - b as i32));
    } else {
        assert!(r.is_err());
    }
}
#[kani::proof]
fn k_coeff_half_ctest() {
    let e: bool = kani::any();
    let eta: i32 = if e { 2 } else { 4 };
    let b: u8 = kani::any();
    kani::assume(b < 16);
    if let Ok(v) = coeff_from_half_byte::<true>(eta, b) { assert!(-eta <= v && v <= eta); }
}

/// partial_reduce64 on the top sliver of its documented domain (Verus covers |x| <= 67_057_000 by interval reasoning)
#[kani::proof]
fn k_pr64_sliver() {
    let x: i32 = kani::any();
    kani::assume((x >= 67_057_000 && x < 67_058_539) || (x <= -67_057_000 && x > -67_058_539));
    kani::cover!(x == 67_058_538);
    let a = (x as i64) << 32;
    let r = partial_reduce64(a);
    assert!(r > -256 && r < Q + 256);
    assert!(((r as i64) - a).rem_euclid(QL) == 0);
}

/// partial_reduce32 / full_reduce32: range and congruence on the whole documented domain
#[kani::proof]
fn k_reduce32() {
    let a: i32 = kani::any();
    kani::assume(in_reduce_domain(a));
    let p = partial_reduce32(a);
    assert!(-6_291_200 <= p && p <= 6_291_200);
    assert!((p as i64 - a as i64).rem_euclid(QL) == 0);
    let f = full_reduce32(a);
    assert!(0 <= f && f < Q);
    assert!((f as i64 - a as i64).rem_euclid(QL) == 0);
}

/// mont_reduce: |r| < q and the sharp bound a - r*2^32 in [-2^31 q, (2^31-1) q] on the whole documented domain (no modulo)
#[kani::proof]
fn k_mont_reduce_sharp() {
    let a: i64 = kani::any();
    kani::assume(a >= -17_996_808_479_301_632 && a <= 17_996_808_470_921_215);
    let r = mont_reduce(a);
    assert!(-Q < r && r < Q);
    let d = (a as i128) - ((r as i128) << 32);
    assert!(d >= -(2_147_483_648i128 * QL as i128) && d <= 2_147_483_647i128 * QL as i128);
}

// ---------------------------------------------------------------- public wrappers with the heavy internals stubbed
// (guard logic, RNG use, argument forwarding). BOUNDED only in the context length (<= 70_000 bytes; Verus covers every length).
mod wrap {
    use crate::ml_dsa_44 as P;
    use crate::traits::{KeyGen, Signer, Verifier};
    use crate::types::{Ph, PrivateKey, PublicKey, T};
    use rand_core::{CryptoRng, RngCore};

    pub struct FakeRng { pub ok: bool, pub bytes: [u8; 32], pub draws: u32 }
    impl RngCore for FakeRng {
        fn next_u32(&mut self) -> u32 { panic!("infallible RNG interface used") }
        fn next_u64(&mut self) -> u64 { panic!("infallible RNG interface used") }
        fn fill_bytes(&mut self, _dest: &mut [u8]) { panic!("infallible RNG interface used") }
        fn try_fill_bytes(&mut self, dest: &mut [u8]) -> Result<(), rand_core::Error> {
            self.draws += 1;
            assert!(dest.len() == 32);
            if self.ok {
                dest.copy_from_slice(&self.bytes);
                Ok(())
            } else {
                // failure after a partial write
                dest[0] = self.bytes[0];
                Err(rand_core::Error::from(core::num::NonZeroU32::new(7).unwrap()))
            }
        }
    }
    impl CryptoRng for FakeRng {}

    const fn t0<const N: usize>() -> [T; N] { [const { T([0i32; 256]) }; N] }
    fn sk0() -> PrivateKey<4, 4> {
        PrivateKey { rho: [1u8; 32], cap_k: [2u8; 32], tr: [3u8; 64], s_1_hat_mont: t0(), s_2_hat_mont: t0(), t_0_hat_mont: t0() }
    }
    fn pk0() -> PublicKey<4, 4> { PublicKey { rho: [1u8; 32], tr: [3u8; 64], t1_d2_hat_mont: t0() } }

    // stubs: record what the wrapper passed down
    #[allow(clippy::too_many_arguments)]
    pub fn stub_sign_internal<const CTEST: bool, const K: usize, const L: usize, const LAMBDA_DIV4: usize, const SIG_LEN: usize, const SK_LEN: usize, const W1_LEN: usize>(
        _beta: i32, _gamma1: i32, _gamma2: i32, _omega: i32, _tau: i32, _esk: &PrivateKey<K, L>,
        message: &[u8], ctx: &[u8], oid: &[u8], phm: &[u8], rnd: [u8; 32], nist: bool,
    ) -> [u8; SIG_LEN] {
        let mut s = [0u8; SIG_LEN];
        s[0..32].copy_from_slice(&rnd);
        s[32] = (ctx.len() % 256) as u8;
        s[33] = (ctx.len() / 256) as u8;
        s[34] = oid.len() as u8;
        s[35] = phm.len() as u8;
        s[36] = nist as u8;
        s[37] = message.len() as u8;
        if oid.len() == 11 { s[38] = oid[10]; }
        if !phm.is_empty() { s[39] = phm[phm.len() - 1]; }
        s
    }
    pub static mut VI_RESULT: bool = false;
    pub static mut VI_SEEN: [u8; 8] = [0u8; 8];
    #[allow(clippy::too_many_arguments)]
    pub fn stub_verify_internal<const CTEST: bool, const K: usize, const L: usize, const LAMBDA_DIV4: usize, const PK_LEN: usize, const SIG_LEN: usize, const W1_LEN: usize>(
        _beta: i32, _gamma1: i32, _gamma2: i32, _omega: i32, _tau: i32, _epk: &PublicKey<K, L>, m: &[u8],
        _sig: &[u8; SIG_LEN], ctx: &[u8], oid: &[u8], phm: &[u8], nist: bool,
    ) -> bool {
        unsafe {
            VI_SEEN = [1, (ctx.len() % 256) as u8, (ctx.len() / 256) as u8, oid.len() as u8, phm.len() as u8, nist as u8, m.len() as u8,
                       if oid.len() == 11 { oid[10] } else { 0 }];
            VI_RESULT
        }
    }
    pub fn stub_hash_message(_message: &[u8], ph: &Ph, phm: &mut [u8; 64]) -> ([u8; 11], usize) {
        let fill: u8 = kani::any();
        match ph {
            Ph::SHA256 => { for i in 0..32 { phm[i] = fill; } ([0x06u8, 0x09, 0x60, 0x86, 0x48, 0x01, 0x65, 0x03, 0x04, 0x02, 0x01], 32) }
            Ph::SHA512 => { for i in 0..64 { phm[i] = fill; } ([0x06u8, 0x09, 0x60, 0x86, 0x48, 0x01, 0x65, 0x03, 0x04, 0x02, 0x03], 64) }
            Ph::SHAKE128 => { for i in 0..32 { phm[i] = fill; } ([0x06u8, 0x09, 0x60, 0x86, 0x48, 0x01, 0x65, 0x03, 0x04, 0x02, 0x0B], 32) }
        }
    }
    pub fn stub_kgi<const CTEST: bool, const K: usize, const L: usize, const PK_LEN: usize, const SK_LEN: usize>(
        _eta: i32, xi: &[u8; 32],
    ) -> (PublicKey<K, L>, PrivateKey<K, L>) {
        (PublicKey { rho: *xi, tr: [0u8; 64], t1_d2_hat_mont: t0() },
         PrivateKey { rho: *xi, cap_k: [0u8; 32], tr: [0u8; 64], s_1_hat_mont: t0(), s_2_hat_mont: t0(), t_0_hat_mont: t0() })
    }
    fn any_ph() -> Ph { let s: u8 = kani::any(); kani::assume(s < 3); match s { 0 => Ph::SHA256, 1 => Ph::SHA512, _ => Ph::SHAKE128 } }
    fn any_rng() -> FakeRng { FakeRng { ok: kani::any(), bytes: kani::any(), draws: 0 } }

    /// try_sign_with_rng: |ctx| > 255 => Err and no draw; else exactly one draw, Ok iff it succeeded, rnd = the drawn bytes,
    /// ctx / message / empty oid+phm / nist=false forwarded
    #[kani::proof]
    #[kani::unwind(65)]
    #[kani::stub(crate::ml_dsa::sign_internal, stub_sign_internal)]
    fn k_wrap_sign() {
        let sk = sk0();
        let mut rng = any_rng();
        let ctx_buf = [0u8; 70_000];
        let n: usize = kani::any();
        kani::assume(n <= 70_000);
        let msg = [9u8; 5];
        let r = sk.try_sign_with_rng(&mut rng, &msg, &ctx_buf[..n]);
        if n > 255 {
            assert!(r.is_err() && rng.draws == 0);
        } else {
            assert!(rng.draws == 1);
            assert!(r.is_ok() == rng.ok);
            if let Ok(s) = r {
                assert!(s[0..32] == rng.bytes);
                assert!(s[32] as usize == n && s[33] == 0 && s[34] == 0 && s[35] == 0 && s[36] == 0 && s[37] == 5);
            }
        }
        core::mem::forget(sk);
    }

    #[kani::proof]
    #[kani::unwind(65)]
    #[kani::stub(crate::ml_dsa::sign_internal, stub_sign_internal)]
    #[kani::stub(crate::hashing::hash_message, stub_hash_message)]
    fn k_wrap_hash_sign() {
        let sk = sk0();
        let mut rng = any_rng();
        let ctx_buf = [0u8; 70_000];
        let n: usize = kani::any();
        kani::assume(n <= 70_000);
        let msg = [9u8; 5];
        let ph = any_ph();
        let want_len: u8 = match ph { Ph::SHA512 => 64, _ => 32 };
        let want_oid: u8 = match ph { Ph::SHA256 => 0x01, Ph::SHA512 => 0x03, Ph::SHAKE128 => 0x0B };
        let r = sk.try_hash_sign_with_rng(&mut rng, &msg, &ctx_buf[..n], &ph);
        if n > 255 {
            assert!(r.is_err() && rng.draws == 0);
        } else {
            assert!(rng.draws == 1);
            assert!(r.is_ok() == rng.ok);
            if let Ok(s) = r {
                assert!(s[0..32] == rng.bytes);
                assert!(s[32] as usize == n && s[33] == 0 && s[34] == 11 && s[35] == want_len && s[36] == 0 && s[37] == 5 && s[38] == want_oid);
            }
        }
        core::mem::forget(sk);
    }

    /// verify / hash_verify: false when |ctx| > 255, otherwise exactly what verify_internal returns, with ctx/oid/phm/nist forwarded
    #[kani::proof]
    #[kani::stub(crate::ml_dsa::verify_internal, stub_verify_internal)]
    fn k_wrap_verify() {
        let pk = pk0();
        let ctx_buf = [0u8; 70_000];
        let n: usize = kani::any();
        kani::assume(n <= 70_000);
        let b: bool = kani::any();
        unsafe { VI_RESULT = b; VI_SEEN = [0u8; 8]; }
        let sig = [0u8; P::SIG_LEN];
        let r = pk.verify(&[9u8; 5], &sig, &ctx_buf[..n]);
        if n > 255 { assert!(!r); } else {
            assert!(r == b);
            unsafe { assert!(VI_SEEN[0] == 1 && VI_SEEN[1] as usize == n && VI_SEEN[2] == 0 && VI_SEEN[3] == 0 && VI_SEEN[4] == 0 && VI_SEEN[5] == 0 && VI_SEEN[6] == 5); }
        }
        core::mem::forget(pk);
    }
    #[kani::proof]
    #[kani::unwind(65)]
    #[kani::stub(crate::ml_dsa::verify_internal, stub_verify_internal)]
    #[kani::stub(crate::hashing::hash_message, stub_hash_message)]
    fn k_wrap_hash_verify() {
        let pk = pk0();
        let ctx_buf = [0u8; 70_000];
        let n: usize = kani::any();
        kani::assume(n <= 70_000);
        let b: bool = kani::any();
        unsafe { VI_RESULT = b; VI_SEEN = [0u8; 8]; }
        let sig = [0u8; P::SIG_LEN];
        let ph = any_ph();
        let want_len: u8 = match ph { Ph::SHA512 => 64, _ => 32 };
        let want_oid: u8 = match ph { Ph::SHA256 => 0x01, Ph::SHA512 => 0x03, Ph::SHAKE128 => 0x0B };
        let r = pk.hash_verify(&[9u8; 5], &sig, &ctx_buf[..n], &ph);
        if n > 255 { assert!(!r); } else {
            assert!(r == b);
            unsafe { assert!(VI_SEEN[0] == 1 && VI_SEEN[1] as usize == n && VI_SEEN[2] == 0 && VI_SEEN[3] == 11 && VI_SEEN[4] == want_len && VI_SEEN[5] == 0 && VI_SEEN[7] == want_oid); }
        }
        core::mem::forget(pk);
    }

    /// key generation with RNG: one draw; Ok iff it succeeded; the keys are those of the seeded variant on exactly the drawn bytes
    #[kani::proof]
    #[kani::stub(crate::ml_dsa::key_gen_internal, stub_kgi)]
    fn k_wrap_keygen() {
        let mut rng = any_rng();
        let r = P::KG::try_keygen_with_rng(&mut rng);
        assert!(rng.draws == 1);
        assert!(r.is_ok() == rng.ok);
        if let Ok((pk, sk)) = r {
            assert!(pk.rho == rng.bytes && sk.rho == rng.bytes);
            core::mem::forget(pk); core::mem::forget(sk);
        }
    }
}

// ---------------------------------------------------------------- codec fallbacks (counterexample generators; BOUNDED input shapes)
mod codec {
    use crate::helpers::is_in_range;
    use crate::types::R;
    fn noop_barrier<T: ?Sized>(_v: &T) {}

    /// is_in_range on one-hot vectors: every position, value and non-negative (lo, hi)
    #[kani::proof]
    #[kani::unwind(260)]
    #[kani::stub(zeroize::optimization_barrier, noop_barrier)]
    fn k_is_in_range_onehot() {
        let i: usize = kani::any();
        kani::assume(i < 256);
        let e: i32 = kani::any();
        let lo: i32 = kani::any();
        let hi: i32 = kani::any();
        kani::assume(lo >= 0 && hi >= 0 && lo < 1_048_576 && hi < 1_048_576 && lo + hi >= 1);
        kani::assume(e > -2_000_000 && e < 2_000_000);
        let mut w = R([0i32; 256]);
        w.0[i] = e;
        let got = is_in_range(&w, lo, hi);
        core::mem::forget(w);
        assert!(got == (e >= -lo && e <= hi));
    }
}
