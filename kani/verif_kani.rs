// Kani harnesses, spliced into a SCRATCH COPY of the crate as `#[cfg(kani)] mod verif_kani;` (never into /repo).
// Every harness is loop-free over the full machine domain stated in its comment unless marked BOUNDED, and checks the
// real function against a spec-literal transcription of the FIPS 204 definition (Euclidean `rem_euclid`, `/`).
#![allow(dead_code, unused_imports, clippy::all)]
use crate::conversion::{coeff_from_half_byte, coeff_from_three_bytes};
use crate::helpers::*;
use crate::high_low::*;
use crate::Q;

const QL: i64 = Q as i64;

// ---------------------------------------------------------------- spec-literal definitions (FIPS 204)
fn s_mod_pm(m: i64, alpha: i64) -> i64 {
    let r = m.rem_euclid(alpha);
    if r > alpha / 2 { r - alpha } else { r }
}
// Algorithm 36
fn s_decompose(gamma2: i64, r: i64) -> (i64, i64) {
    let rp = r.rem_euclid(QL);
    let r0 = s_mod_pm(rp, 2 * gamma2);
    if rp - r0 == QL - 1 { (0, r0 - 1) } else { ((rp - r0) / (2 * gamma2), r0) }
}
// Algorithm 39
fn s_make_hint(gamma2: i64, z: i64, r: i64) -> bool { s_decompose(gamma2, r).0 != s_decompose(gamma2, r + z).0 }
// Algorithm 40
fn s_use_hint(gamma2: i64, h: i64, r: i64) -> i64 {
    let m = (QL - 1) / (2 * gamma2);
    let (r1, r0) = s_decompose(gamma2, r);
    if h == 1 && r0 > 0 { (r1 + 1).rem_euclid(m) } else if h == 1 && r0 <= 0 { (r1 - 1).rem_euclid(m) } else { r1 }
}
fn any_gamma2() -> i32 {
    let g: bool = kani::any();
    if g { (Q - 1) / 88 } else { (Q - 1) / 32 }
}
fn in_reduce_domain(a: i32) -> bool { a > -2_143_289_344 && a < 2_143_289_344 }

// ---------------------------------------------------------------- C15 scalar kernels
/// center_mod == mod+- q on the whole documented domain
#[kani::proof]
fn k_center_mod() {
    let m: i32 = kani::any();
    kani::assume(in_reduce_domain(m));
    kani::cover!(m == 4_190_209);
    let r = center_mod(m);
    assert!(r as i64 == s_mod_pm(m as i64, QL));
}

/// decompose == Algorithm 36 for both gamma2 and every r in the reduction domain (incl. the r+ - r0 = q-1 corner)
#[kani::proof]
fn k_decompose() {
    let g = any_gamma2();
    let r: i32 = kani::any();
    kani::assume(in_reduce_domain(r));
    kani::cover!(r == 8_285_185 && g == 95_232);
    let (r1, r0) = decompose(g, r);
    let (s1, s0) = s_decompose(g as i64, r as i64);
    assert!(r1 as i64 == s1);
    assert!(r0 as i64 == s0);
    assert!(0 <= r1 && (r1 as i64) < (QL - 1) / (2 * g as i64));
    assert!(-(g as i64) <= r0 as i64 && r0 <= g);
}

#[kani::proof]
fn k_high_low_bits() {
    let g = any_gamma2();
    let r: i32 = kani::any();
    kani::assume(in_reduce_domain(r));
    let (s1, s0) = s_decompose(g as i64, r as i64);
    assert!(high_bits(g, r) as i64 == s1);
    assert!(low_bits(g, r) as i64 == s0);
}

/// make_hint == Algorithm 39 whenever r and r+z are inside the reduction domain
#[kani::proof]
fn k_make_hint() {
    let g = any_gamma2();
    let r: i32 = kani::any();
    let z: i32 = kani::any();
    kani::assume(in_reduce_domain(r) && in_reduce_domain(z));
    kani::assume(in_reduce_domain(r.wrapping_add(z)) && (r as i64 + z as i64 == r.wrapping_add(z) as i64));
    kani::cover!(z > Q && r < 0);
    assert!(make_hint(g, z, r) == s_make_hint(g as i64, z as i64, r as i64));
}

/// use_hint == Algorithm 40 for h in {0,1}
#[kani::proof]
fn k_use_hint() {
    let g = any_gamma2();
    let r: i32 = kani::any();
    let h: i32 = kani::any();
    kani::assume(in_reduce_domain(r) && (h == 0 || h == 1));
    kani::cover!(h == 1 && r == 0);
    let u = use_hint(g, h, r);
    assert!(u as i64 == s_use_hint(g as i64, h as i64, r as i64));
    assert!(0 <= u && (u as i64) < (QL - 1) / (2 * g as i64));
}

/// CoeffFromThreeBytes (normal mode) == Algorithm 14 on all 2^24 inputs
#[kani::proof]
fn k_coeff3() {
    let b: [u8; 3] = kani::any();
    let z: i64 = 65536 * ((b[2] as i64) % 128) + 256 * (b[1] as i64) + (b[0] as i64);
    kani::cover!(z == QL - 1);
    kani::cover!(z == QL);
    match coeff_from_three_bytes::<false>(b) {
        Ok(v) => assert!(z < QL && v as i64 == z),
        Err(_) => assert!(z >= QL),
    }
}
/// test mode: never outside [0,q)
#[kani::proof]
fn k_coeff3_ctest() {
    let b: [u8; 3] = kani::any();
    if let Ok(v) = coeff_from_three_bytes::<true>(b) { assert!(0 <= v && v < Q); }
}

/// CoeffFromHalfByte (normal mode) == Algorithm 15 for eta in {2,4}, b in 0..16
#[kani::proof]
fn k_coeff_half() {
    let e: bool = kani::any();
    let eta: i32 = if e { 2 } else { 4 };
    let b: u8 = kani::any();
    kani::assume(b < 16);
    kani::cover!(eta == 2 && b == 14);
    let r = coeff_from_half_byte::<false>(eta, b);
    if eta == 2 && b < 15 {
        assert!(r == Ok(2 - (b as i32 % 5)));
    } else if eta == 4 && b < 9 {
        assert!(r == Ok(4 - b as i32));
    } else {
        assert!(r.is_err());
    }
}
#[kani::proof]
fn k_coeff_half_ctest() {
    let e: bool = kani::any();
    let eta: i32 = if e { 2 } else { 4 };
    let b: u8 = kani::any();
    kani::assume(b < 16);
    if let Ok(v) = coeff_from_half_byte::<true>(eta, b) { assert!(-eta <= v && v <= eta); }
}

/// partial_reduce64 on the top sliver of its documented domain (Verus covers |x| <= 67_057_000 by interval reasoning)
#[kani::proof]
fn k_pr64_sliver() {
    let x: i32 = kani::any();
    kani::assume((x >= 67_057_000 && x < 67_058_539) || (x <= -67_057_000 && x > -67_058_539));
    kani::cover!(x == 67_058_538);
    let a = (x as i64) << 32;
    let r = partial_reduce64(a);
    assert!(r > -256 && r < Q + 256);
    assert!(((r as i64) - a).rem_euclid(QL) == 0);
}

/// partial_reduce32 / full_reduce32: range and congruence on the whole documented domain
#[kani::proof]
fn k_reduce32() {
    let a: i32 = kani::any();
    kani::assume(in_reduce_domain(a));
    let p = partial_reduce32(a);
    assert!(-6_291_200 <= p && p <= 6_291_200);
    assert!((p as i64 - a as i64).rem_euclid(QL) == 0);
    let f = full_reduce32(a);
    assert!(0 <= f && f < Q);
    assert!((f as i64 - a as i64).rem_euclid(QL) == 0);
}

/// mont_reduce: |r| < q and the sharp bound a - r*2^32 in [-2^31 q, (2^31-1) q] on the whole documented domain (no modulo)
#[kani::proof]
fn k_mont_reduce_sharp() {
    let a: i64 = kani::any();
    kani::assume(a >= -17_996_808_479_301_632 && a <= 17_996_808_470_921_215);
    let r = mont_reduce(a);
    assert!(-Q < r && r < Q);
    let d = (a as i128) - ((r as i128) << 32);
    assert!(d >= -(2_147_483_648i128 * QL as i128) && d <= 2_147_483_647i128 * QL as i128);
}
