// Native bounded fallback (NOT a proof, never counted as one): spliced into a scratch copy of the crate as a #[cfg(test)] module when
// Verus cannot ingest a function on the tree under test (or in the thorough tier as a cross-check). Each test compares the real
// function with a spec-literal oracle on a structured, stated family of inputs and panics with the failing input.
#![allow(clippy::all, dead_code, unused_imports)]
extern crate std;
use std::vec;
use std::vec::Vec;
use crate::conversion::{bit_unpack, hint_bit_pack, hint_bit_unpack};
use crate::helpers::is_in_range;
use crate::types::R;

fn s_field(v: &[u8], c: usize, j: usize) -> i32 {
    let mut x = 0i32;
    for t in 0..c {
        let p = c * j + t;
        x |= (((v[p / 8] >> (p % 8)) & 1) as i32) << t;
    }
    x
}
fn set_field(v: &mut [u8], c: usize, j: usize, val: i32) {
    for t in 0..c {
        let p = c * j + t;
        let bit = ((val >> t) & 1) as u8;
        v[p / 8] = (v[p / 8] & !(1 << (p % 8))) | (bit << (p % 8));
    }
}
fn bitlen(x: i32) -> usize { (32 - (x as u32).leading_zeros()) as usize }

/// bit_unpack: for each (a, b) the crate uses, every field index x {0, 1, a+b-1, a+b, a+b+1, 2^c-1} on an all-(value b => coefficient 0)
/// background and on an all-zero background: Ok iff all fields <= a+b, coefficients = b - field
#[test]
fn nf_bit_unpack() {
    for &(a, b) in &[(2i32, 2i32), (4, 4), (4095, 4096), (131_071, 131_072), (524_287, 524_288)] {
        let c = bitlen(a + b);
        let len = 32 * c;
        for bg in [0i32, b] {
            for j in 0..256usize {
                let top = (1i32 << c) - 1;
                for &val in &[0, 1, a + b - 1, a + b, a + b + 1, top, top - 1, (a + b + 1 + top) / 2] {
                    if val < 0 || val > top { continue; }
                    let mut v = vec![0u8; len];
                    for jj in 0..256 { set_field(&mut v, c, jj, bg); }
                    set_field(&mut v, c, j, val);
                    let all_ok = (0..256).all(|jj| s_field(&v, c, jj) <= a + b);
                    match bit_unpack(&v, a, b) {
                        Ok(w) => {
                            assert!(all_ok, "bit_unpack accepted a={} b={} field[{}]={} (> a+b)", a, b, j, val);
                            for jj in 0..256 { assert_eq!(w.0[jj], b - s_field(&v, c, jj), "bit_unpack a={} b={} coefficient {}", a, b, jj); }
                        }
                        Err(_) => assert!(all_ok == false, "bit_unpack rejected in-range input a={} b={} field[{}]={}", a, b, j, val),
                    }
                }
            }
        }
    }
}

/// is_in_range: one-hot vectors, every index, values around the bounds, the (lo, hi) pairs the crate uses
#[test]
fn nf_is_in_range() {
    for &(lo, hi) in &[(2i32, 2i32), (4, 4), (0, 1), (0, 1023), (4095, 4096), (131_071, 131_072), (524_287, 524_288), (0, 43), (0, 15)] {
        for i in 0..256usize {
            for d in -12i32..=12 {
                for &base in &[-lo, hi, 0] {
                    let e = base + d;
                    let mut w = R([0i32; 256]);
                    w.0[i] = e;
                    assert_eq!(is_in_range(&w, lo, hi), e >= -lo && e <= hi, "is_in_range lo={} hi={} w[{}]={}", lo, hi, i, e);
                }
            }
        }
    }
}

// Algorithm 21, spec-literal
fn s_hint_unpack<const K: usize>(omega: usize, y: &[u8]) -> Option<[[bool; 256]; K]> {
    let mut h = [[false; 256]; K];
    let mut index = 0usize;
    for i in 0..K {
        let cnt = y[omega + i] as usize;
        if cnt < index || cnt > omega { return None; }
        let first = index;
        while index < cnt {
            if index > first && y[index - 1] >= y[index] { return None; }
            h[i][y[index] as usize] = true;
            index += 1;
        }
    }
    for t in index..omega { if y[t] != 0 { return None; } }
    Some(h)
}
fn check_hint<const K: usize>(omega: usize, y: &[u8]) {
    let s = s_hint_unpack::<K>(omega, y);
    let r = std::panic::catch_unwind(|| hint_bit_unpack::<K>(omega as i32, y));
    let r = match r { Ok(r) => r, Err(_) => panic!("hint_bit_unpack panicked on y = {:?}", y) };
    match (r, s) {
        (Ok(h), Some(sh)) => for i in 0..K { for j in 0..256 { assert_eq!(h[i].0[j] == 1, sh[i][j], "hint bit [{}][{}] y={:?}", i, j, y); assert!(h[i].0[j] == 0 || h[i].0[j] == 1); } },
        (Err(_), None) => {}
        (Ok(_), None) => panic!("hint_bit_unpack accepted a non-canonical hint section y = {:?}", y),
        (Err(_), Some(_)) => panic!("hint_bit_unpack rejected a canonical hint section y = {:?}", y),
    }
}
/// hint_bit_unpack: exhaustive over bytes in {0,1,2,3,4,255} at K=2, omega=3 (6^5 strings), plus structured malformations at the
/// real sizes (one non-zero padding byte at each position, equal / decreasing neighbours, counters out of order or > omega)
#[test]
fn nf_hint_unpack() {
    let al = [0u8, 1, 2, 3, 4, 255];
    for a in al { for b in al { for c in al { for d in al { for e in al { check_hint::<2>(3, &[a, b, c, d, e]); } } } } }
    fn real<const K: usize>(omega: usize) {
        let n = omega + K;
        // a valid base: polynomial 0 has indices 5, 9, 200; polynomial 1 has 7; the rest empty
        let mut base = vec![0u8; n];
        base[0] = 5; base[1] = 9; base[2] = 200; base[3] = 7;
        base[omega] = 3; for i in 1..K { base[omega + i] = 4; }
        check_hint::<K>(omega, &base);
        for p in 4..omega { let mut y = base.clone(); y[p] = 1; check_hint::<K>(omega, &y); let mut y = base.clone(); y[p] = 255; check_hint::<K>(omega, &y); }
        let mut y = base.clone(); y[1] = 5; check_hint::<K>(omega, &y);        // repeated index
        let mut y = base.clone(); y[1] = 4; check_hint::<K>(omega, &y);        // decreasing
        let mut y = base.clone(); y[omega] = 4; y[omega + 1] = 3; check_hint::<K>(omega, &y); // counter decreases
        for i in 0..K { let mut y = base.clone(); y[omega + i] = (omega + 1) as u8; check_hint::<K>(omega, &y); let mut y = base.clone(); y[omega + i] = 255; check_hint::<K>(omega, &y); }
        let mut y = vec![0u8; n]; for t in 0..omega { y[t] = t as u8; } for i in 0..K { y[omega + i] = omega as u8; } check_hint::<K>(omega, &y); // weight exactly omega
        let mut y = vec![0u8; n]; for t in 0..omega { y[t] = t as u8; } y[omega] = (omega + K - 1) as u8; for i in 1..K { y[omega + i] = 255; } y[n - 1] = 0; check_hint::<K>(omega, &y);
    }
    real::<4>(80); real::<6>(55); real::<8>(75);
}

/// private-key deserialisation through the public API: every s1/s2 field position x every field value (others in range)
#[test]
fn nf_sk_fields() {
    use crate::traits::{KeyGen, SerDes};
    fn run<const SK: usize>(eta: i32, k: usize, l: usize, good: [u8; SK], accept: &dyn Fn([u8; SK]) -> bool) {
        let c = if eta == 2 { 3 } else { 4 };
        let nfields = (k + l) * 256;
        for f in (0..nfields).step_by(1) {
            for val in 0..(1i32 << c) {
                let mut b = good;
                set_field(&mut b[128..], c, f, val);
                let ok = accept(b);
                assert_eq!(ok, val <= 2 * eta, "sk field {} (poly {}, coeff {}) = {} (eta = {})", f, f / 256, f % 256, val, eta);
            }
        }
    }
    let (_p, s) = crate::ml_dsa_44::KG::keygen_from_seed(&[1u8; 32]);
    run::<2560>(2, 4, 4, s.into_bytes(), &|b| crate::ml_dsa_44::PrivateKey::try_from_bytes(b).is_ok());
    let (_p, s) = crate::ml_dsa_65::KG::keygen_from_seed(&[1u8; 32]);
    run::<4032>(4, 6, 5, s.into_bytes(), &|b| crate::ml_dsa_65::PrivateKey::try_from_bytes(b).is_ok());
    let (_p, s) = crate::ml_dsa_87::KG::keygen_from_seed(&[1u8; 32]);
    run::<4896>(2, 8, 7, s.into_bytes(), &|b| crate::ml_dsa_87::PrivateKey::try_from_bytes(b).is_ok());
}

/// sign / verify round trips with generated, round-tripped and derived keys (2 seeds x 3 sets x 4 modes); a plain sample, used only
/// as a fallback when key derivation / wrappers cannot be verified on the tree under test
#[test]
fn nf_roundtrip_keys() {
    use crate::traits::{KeyGen, SerDes, Signer, Verifier};
    use crate::types::Ph;
    use rand_core::{CryptoRng, RngCore};
    struct Fixed(u8);
    impl RngCore for Fixed {
        fn next_u32(&mut self) -> u32 { unimplemented!() }
        fn next_u64(&mut self) -> u64 { unimplemented!() }
        fn fill_bytes(&mut self, _d: &mut [u8]) { unimplemented!() }
        fn try_fill_bytes(&mut self, d: &mut [u8]) -> Result<(), rand_core::Error> { for b in d.iter_mut() { *b = self.0; self.0 = self.0.wrapping_add(1); } Ok(()) }
    }
    impl CryptoRng for Fixed {}
    macro_rules! go { ($m:ident) => {{
        for seed in [3u8, 77u8] {
            let (pk, sk) = crate::$m::KG::keygen_from_seed(&[seed; 32]);
            let pk_rt = crate::$m::PublicKey::try_from_bytes(pk.clone().into_bytes()).unwrap();
            let sk_rt = crate::$m::PrivateKey::try_from_bytes(sk.clone().into_bytes()).unwrap();
            let pk_d = sk.get_public_key();
            let pk_d2 = sk_rt.get_public_key();
            assert_eq!(pk.clone().into_bytes(), pk_d.clone().into_bytes(), "derived pk bytes differ (seed {})", seed);
            let ctx = [5u8; 255];
            let msg = [seed; 100];
            for s in [&sk, &sk_rt] {
                let sig = s.try_sign_with_rng(&mut Fixed(seed), &msg, &ctx).unwrap();
                for (name, p) in [("generated", &pk), ("round-tripped", &pk_rt), ("derived", &pk_d), ("derived from round-tripped sk", &pk_d2)] {
                    assert!(p.verify(&msg, &sig, &ctx), "pure signature rejected by {} public key ({}, seed {})", name, stringify!($m), seed);
                }
                for ph in [Ph::SHA256, Ph::SHA512, Ph::SHAKE128] {
                    let sig = s.try_hash_sign_with_rng(&mut Fixed(seed), &msg, &ctx, &ph).unwrap();
                    for (name, p) in [("generated", &pk), ("round-tripped", &pk_rt), ("derived", &pk_d), ("derived from round-tripped sk", &pk_d2)] {
                        assert!(p.hash_verify(&msg, &sig, &ctx, &ph), "pre-hash signature rejected by {} public key ({}, seed {})", name, stringify!($m), seed);
                    }
                }
            }
        }
    }}}
    go!(ml_dsa_44); go!(ml_dsa_65); go!(ml_dsa_87);
}

// C09: every byte string of public-key length deserialises successfully and serialises back to identical bytes (structured extremes)
macro_rules! pk_total_for {
    ($m:ident, $t:expr) => {{
        use crate::$m as M;
        let mut cases: Vec<[u8; M::PK_LEN]> = Vec::new();
        cases.push([0u8; M::PK_LEN]);
        cases.push([0xFFu8; M::PK_LEN]);
        let mut a = [0u8; M::PK_LEN];
        for (i, b) in a.iter_mut().enumerate() { *b = (i as u8).wrapping_mul(37).wrapping_add(11); }
        cases.push(a);
        let mut z = a; for b in z[32..].iter_mut() { *b = 0; }          // arbitrary seed, t1 = 0
        cases.push(z);
        let mut o = [0u8; M::PK_LEN]; o[32] = 1;                           // a single non-zero t1 coefficient
        cases.push(o);
        for (ci, c) in cases.iter().enumerate() {
            let pk = M::PublicKey::try_from_bytes(*c);
            assert!(pk.is_ok(), "public-key byte string #{} rejected by try_from_bytes ({})", ci, $t);
            let back = pk.unwrap().into_bytes();
            assert!(back == *c, "public-key byte string #{} does not serialise back to itself ({})", ci, $t);
        }
    }};
}
#[test]
fn nf_pk_total() {
    use crate::traits::SerDes;
    pk_total_for!(ml_dsa_44, "ml_dsa_44");
    pk_total_for!(ml_dsa_65, "ml_dsa_65");
    pk_total_for!(ml_dsa_87, "ml_dsa_87");
}

// C06 / C05 / C03 / C07: the public signing and verification entry points format M' exactly as FIPS 204 Algorithms 2-5 say. Differential
// oracle: the `nist = true` path (mu = H(tr || M') for an M' supplied as-is) is fed the oracle's own M' and must give the same signature
// bytes as the public entry point given (M, ctx[, PH]) and the same rnd; and each side's signature must verify on the other side.
macro_rules! mprime_for {
    ($m:ident, $t:expr) => {{
        #[allow(deprecated)]
        {
            use crate::$m as M;
            use crate::traits::{KeyGen, Signer, Verifier};
            use crate::types::Ph;
            use rand_core::{CryptoRng, RngCore};
            use sha2::{Digest, Sha256, Sha512};
            use sha3::digest::{ExtendableOutput, Update, XofReader};
            struct Fixed(u8);
            impl RngCore for Fixed {
                fn next_u32(&mut self) -> u32 { unimplemented!() }
                fn next_u64(&mut self) -> u64 { unimplemented!() }
                fn fill_bytes(&mut self, _d: &mut [u8]) { unimplemented!() }
                fn try_fill_bytes(&mut self, d: &mut [u8]) -> Result<(), rand_core::Error> { for b in d.iter_mut() { *b = self.0; } Ok(()) }
            }
            impl CryptoRng for Fixed {}
            let (pk, sk) = M::KG::keygen_from_seed(&[9u8; 32]);
            let msg: Vec<u8> = (0..77u8).collect();
            for clen in [0usize, 1, 2, 17, 254, 255] {
                let ctx: Vec<u8> = (0..clen).map(|i| (i as u8) ^ 0x5A).collect();
                let rnd = [0x33u8; 32];
                // pure mode
                let mut mp = vec![0u8, clen as u8];
                mp.extend_from_slice(&ctx); mp.extend_from_slice(&msg);
                let api = sk.try_sign_with_rng(&mut Fixed(0x33), &msg, &ctx).unwrap();
                let refsig = M::_internal_sign(&sk, &mp, &[], rnd).unwrap();
                assert!(api == refsig, "pure-mode signature differs from Sign_internal on M' = 0 || |ctx| || ctx || M  (|ctx| = {}, {})", clen, $t);
                assert!(M::_internal_verify(&pk, &mp, &api, &[]), "Verify_internal on the oracle's M' rejects the public signature (|ctx| = {}, {})", clen, $t);
                assert!(pk.verify(&msg, &refsig, &ctx), "verify rejects Sign_internal's signature on the oracle's M' (|ctx| = {}, {})", clen, $t);
                // pre-hash modes
                for (ph, oid_last) in [(Ph::SHA256, 0x01u8), (Ph::SHA512, 0x03u8), (Ph::SHAKE128, 0x0Bu8)] {
                    let oid = [0x06u8, 0x09, 0x60, 0x86, 0x48, 0x01, 0x65, 0x03, 0x04, 0x02, oid_last];
                    let digest: Vec<u8> = match ph {
                        Ph::SHA256 => Sha256::digest(&msg).to_vec(),
                        Ph::SHA512 => Sha512::digest(&msg).to_vec(),
                        Ph::SHAKE128 => { let mut h = sha3::Shake128::default(); h.update(&msg); let mut r = h.finalize_xof(); let mut o = [0u8; 32]; r.read(&mut o); o.to_vec() }
                    };
                    let mut mp = vec![1u8, clen as u8];
                    mp.extend_from_slice(&ctx); mp.extend_from_slice(&oid); mp.extend_from_slice(&digest);
                    let api = sk.try_hash_sign_with_rng(&mut Fixed(0x33), &msg, &ctx, &ph).unwrap();
                    let refsig = M::_internal_sign(&sk, &mp, &[], rnd).unwrap();
                    assert!(api == refsig, "pre-hash signature differs from Sign_internal on M' = 1 || |ctx| || ctx || OID || PH(M)  (OID ..{:02x}, |ctx| = {}, {})", oid_last, clen, $t);
                    assert!(M::_internal_verify(&pk, &mp, &api, &[]), "Verify_internal on the oracle's M' rejects the public pre-hash signature (OID ..{:02x}, |ctx| = {}, {})", oid_last, clen, $t);
                    assert!(pk.hash_verify(&msg, &refsig, &ctx, &ph), "hash_verify rejects Sign_internal's signature on the oracle's M' (OID ..{:02x}, |ctx| = {}, {})", oid_last, clen, $t);
                }
            }
        }
    }};
}
#[test]
fn nf_mprime_format() {
    mprime_for!(ml_dsa_44, "ml_dsa_44");
    mprime_for!(ml_dsa_65, "ml_dsa_65");
    mprime_for!(ml_dsa_87, "ml_dsa_87");
}

// C18 / C13 / C02: regression vector for finding F1 (an adversarial response vector whose A-hat o NTT(z) row sums past i32::MAX inside the
// inverse NTT unless its input is reduced at copy-in): verify must return false, not panic, in a build with overflow checks.
// The vector file is generated from /verif/findings/F1/f1_vector.json by vp_lib/native.py.
#[path = "verif_native_f1.rs"]
mod f1;
fn unhex(s: &str) -> Vec<u8> {
    let b: Vec<u8> = s.bytes().filter(|c| c.is_ascii_hexdigit()).collect();
    b.chunks(2).map(|p| { let h = |c: u8| if c <= b'9' { c - b'0' } else { (c | 0x20) - b'a' + 10 }; (h(p[0]) << 4) | h(p[1]) }).collect()
}
#[test]
fn nf_f1_vector() {
    use crate::traits::{SerDes, Verifier};
    let pk: [u8; crate::ml_dsa_87::PK_LEN] = unhex(f1::PK_HEX).try_into().expect("pk length");
    let sig: [u8; crate::ml_dsa_87::SIG_LEN] = unhex(f1::SIG_HEX).try_into().expect("sig length");
    let msg = unhex(f1::MSG_HEX);
    let pk = crate::ml_dsa_87::PublicKey::try_from_bytes(pk).expect("every public-key byte string is accepted");
    let r = std::panic::catch_unwind(|| pk.verify(&msg, &sig, &[]));
    assert!(r.is_ok(), "verify panicked on the F1 vector (arithmetic overflow in the transform pipeline)");
    assert!(!r.unwrap(), "verify accepted the F1 vector");
}

// C09: every accepted private-key byte string serialises back to identical bytes - also keys that key generation would never produce
// (arbitrary t0 fields, every s1/s2 coefficient at an extreme of [-eta, eta])
macro_rules! sk_rt_for {
    ($m:ident, $t:expr, $eta:expr, $k:expr, $l:expr) => {{
        use crate::$m as M;
        use crate::traits::{KeyGen, SerDes};
        let (_pk, sk) = M::KG::keygen_from_seed(&[41u8; 32]);
        let base = sk.into_bytes();
        let c = bitlen(2 * $eta);
        let s_len = ($l + $k) * 32 * c;
        let mut cases: Vec<[u8; M::SK_LEN]> = Vec::new();
        cases.push(base);
        let mut a = base; for b in a[128 + s_len..].iter_mut() { *b = 0xA5; }          // arbitrary t0
        cases.push(a);
        let mut z = base; for b in z[128 + s_len..].iter_mut() { *b = 0x00; }          // t0 = 2^12 everywhere
        cases.push(z);
        let mut e0 = base; for j in 0..($l + $k) * 256 { set_field(&mut e0[128..128 + s_len], c, j, 0); }             // every s coefficient = +eta
        cases.push(e0);
        let mut e1 = base; for j in 0..($l + $k) * 256 { set_field(&mut e1[128..128 + s_len], c, j, 2 * $eta); }      // every s coefficient = -eta
        cases.push(e1);
        for (ci, cs) in cases.iter().enumerate() {
            let k = M::PrivateKey::try_from_bytes(*cs);
            assert!(k.is_ok(), "in-range private-key byte string #{} rejected ({})", ci, $t);
            let back = k.unwrap().into_bytes();
            assert!(back == *cs, "accepted private-key byte string #{} does not serialise back to itself ({})", ci, $t);
        }
    }};
}
#[test]
fn nf_sk_total() {
    sk_rt_for!(ml_dsa_44, "ml_dsa_44", 2, 4usize, 4usize);
    sk_rt_for!(ml_dsa_65, "ml_dsa_65", 4, 6usize, 5usize);
    sk_rt_for!(ml_dsa_87, "ml_dsa_87", 2, 8usize, 7usize);
}

// C02 / C01 / C03: infinity_norm is the maximum of |e mod+- q| - structured vectors: one-hot at several indices with values around 0,
// +-(gamma1 - beta), +-gamma2, +-(q-1)/2, +-q and the ends of the reduction domain, and two-hot vectors (negative vs positive maximum)
#[test]
fn nf_infinity_norm() {
    use crate::helpers::infinity_norm;
    const QI: i64 = 8_380_417;
    fn want(v: &[i32]) -> i64 {
        v.iter().map(|&e| { let m = (e as i64).rem_euclid(QI); let c = if m > (QI - 1) / 2 { m - QI } else { m }; c.abs() }).max().unwrap()
    }
    let anchors: [i64; 12] = [0, 1, 78, 130_994, 131_072, 95_232, 261_888, 524_092, (QI - 1) / 2, QI, 2 * QI, 2_143_289_343];
    let mut vals: Vec<i32> = Vec::new();
    for a in anchors { for d in -2i64..=2 { for s in [1i64, -1] { let x = s * a + d; if x.abs() < 2_143_289_344 { vals.push(x as i32); } } } }
    for &i in &[0usize, 1, 127, 255] {
        for &e in &vals {
            let mut w = [R([0i32; 256])];
            w[0].0[i] = e;
            assert!(infinity_norm(&w) as i64 == want(&w[0].0), "infinity_norm one-hot i={} e={}: got {}, the norm is {}", i, e, infinity_norm(&w), want(&w[0].0));
        }
    }
    for &(a, b) in &[(-130_994i32, 130_993i32), (130_993, -130_994), (-5, 4), (4, -5), (-1, 0), (8_380_416, 1), (-4_190_208, 4_190_208)] {
        let mut w = [R([0i32; 256]), R([0i32; 256])];
        w[0].0[3] = a; w[1].0[200] = b;
        let all: Vec<i32> = w[0].0.iter().chain(w[1].0.iter()).copied().collect();
        assert!(infinity_norm(&w) as i64 == want(&all), "infinity_norm two-hot ({}, {}): got {}, the norm is {}", a, b, infinity_norm(&w), want(&all));
    }
}

// C15 / C18 / C13: the modular reductions on structured points of their documented domains (no overflow in a checked build, output
// range, congruence): powers of two, domain ends, multiples of q and a deterministic pseudo-random sweep
#[test]
fn nf_reductions() {
    use crate::helpers::{full_reduce32, mont_reduce, partial_reduce32, partial_reduce64};
    const QI: i128 = 8_380_417;
    let cong = |a: i128, b: i128| (a - b).rem_euclid(QI) == 0;
    // partial_reduce64 on a = x * 2^32, |x| < 67_058_539
    let mut xs: Vec<i64> = vec![0, 1, -1, 67_058_538, -67_058_538, 67_057_000, -67_057_000, 35_093_512, -35_093_512, 33_554_432, -33_554_432];
    for k in 0..27 { for d in [-1i64, 0, 1] { let v = (1i64 << k) + d; xs.push(v); xs.push(-v); } }
    for m in [1i64, 2, 3, 4, 5, 6, 7, 8] { for d in [-1i64, 0, 1] { xs.push(m * 8_380_417 + d); xs.push(-(m * 8_380_417 + d)); } }
    let mut s: u64 = 0x9E37_79B9_7F4A_7C15;
    for _ in 0..4000 { s = s.wrapping_mul(6364136223846793005).wrapping_add(1442695040888963407); xs.push(((s >> 16) % (2 * 67_058_538 + 1)) as i64 - 67_058_538); }
    for &x in &xs {
        if x.abs() >= 67_058_539 { continue; }
        let a = x << 32;
        let r = partial_reduce64(a);
        assert!((r as i64).abs() < 2 * 8_380_417, "partial_reduce64({} << 32) = {} out of range", x, r);
        assert!(cong(r as i128, a as i128), "partial_reduce64({} << 32) = {} is not congruent to its input", x, r);
    }
    // partial_reduce32 / full_reduce32 on |a| < 2_143_289_344
    let mut ys: Vec<i32> = vec![0, 1, -1, 2_143_289_343, -2_143_289_343, 4_190_208, 4_190_209, -4_190_208, -4_190_209];
    for k in 0..31 { for d in [-1i64, 0, 1] { let v = (1i64 << k) + d; if v < 2_143_289_344 { ys.push(v as i32); ys.push((-v) as i32); } } }
    for m in 1..=255i64 { for d in [-1i64, 0, 1] { let v = m * 8_380_417 + d; if v < 2_143_289_344 { ys.push(v as i32); ys.push((-v) as i32); } } }
    for &y in &ys {
        let p = partial_reduce32(y);
        assert!((p as i64).abs() <= 6_291_200 && cong(p as i128, y as i128), "partial_reduce32({}) = {}", y, p);
        let f = full_reduce32(y);
        assert!((0..8_380_417).contains(&f) && cong(f as i128, y as i128), "full_reduce32({}) = {}", y, f);
    }
    // mont_reduce on products of the magnitudes its callers supply
    for &u in &[0i64, 1, -1, 35_093_512, -35_093_512, 8_380_416, 8_380_672, -255, 4_190_208, 65_536] {
        for &v in &[0i64, 1, -1, 8_380_416, 8_380_672, -255, 16_382, 25_847, 2_365_951, 8192] {
            let a = u * v;
            let r = mont_reduce(a);
            assert!((r as i64).abs() < 8_380_417 && cong((r as i128) << 32, a as i128), "mont_reduce({} * {}) = {}", u, v, r);
        }
    }
}

// C11 / C04 / C09 (release profile with debug assertions and overflow checks ON; see vp_lib/native.py): a sweep over consecutive seeds
// le64(i) || 0^24. For every generated pair the derived public key serialises to the generated public key's bytes and no self-check or
// overflow check fires; every 32nd pair is also reloaded from its serialisation and re-serialised. A sample (rare per-coefficient
// events have probability about 1e-4 per key, hence the tens of thousands of keys), not a proof.
macro_rules! sweep_for {
    ($m:ident, $t:expr, $n:expr) => {{
        use crate::$m as M;
        use crate::traits::{KeyGen, SerDes, Signer};
        for i in 0u64..$n {
            let mut seed = [0u8; 32];
            seed[..8].copy_from_slice(&i.to_le_bytes());
            let (pk, sk) = M::KG::keygen_from_seed(&seed);
            let pkb = pk.into_bytes();
            let derived = sk.get_public_key().into_bytes();
            assert!(derived == pkb, "derived public key differs from the generated one for seed le64({}) || 0^24 ({})", i, $t);
            if i % 32 == 0 {
                let skb = sk.into_bytes();
                let sk2 = M::PrivateKey::try_from_bytes(skb).expect("generated private key rejected");
                assert!(sk2.clone().into_bytes() == skb, "private key does not round-trip for seed le64({}) || 0^24 ({})", i, $t);
                assert!(sk2.get_public_key().into_bytes() == pkb, "public key derived from the reloaded private key differs for seed le64({}) || 0^24 ({})", i, $t);
                let pk2 = M::PublicKey::try_from_bytes(pkb).expect("generated public key rejected");
                assert!(pk2.into_bytes() == pkb, "public key does not round-trip for seed le64({}) || 0^24 ({})", i, $t);
            }
        }
    }};
}
#[test]
#[ignore]
fn nf_key_sweep() {
    sweep_for!(ml_dsa_44, "ml_dsa_44", 20_000u64);
    sweep_for!(ml_dsa_65, "ml_dsa_65", 12_000u64);
    sweep_for!(ml_dsa_87, "ml_dsa_87", 16_000u64);
}
