use fips204::ml_dsa_44;
use fips204::traits::{KeyGen, SerDes, Signer};

// F2: sk with an out-of-range eta field is accepted by try_from_bytes
#[test]
fn f2_out_of_range_s1_accepted() {
    let (_pk, sk) = ml_dsa_44::KG::keygen_from_seed(&[7u8; 32]);
    let mut b = sk.into_bytes();
    // first s1 field: 3 bits at byte 128; value 7 => coefficient 2-7 = -5 (outside [-2,2])
    b[128] |= 0x07;
    let r = ml_dsa_44::PrivateKey::try_from_bytes(b);
    assert!(r.is_err(), "F2: malformed private key accepted");
}

// F2 consequence: into_bytes on the accepted key trips sk_encode's self-check (debug build)
#[test]
fn f2_into_bytes_panics() {
    let (_pk, sk) = ml_dsa_44::KG::keygen_from_seed(&[7u8; 32]);
    let mut b = sk.into_bytes();
    b[128] |= 0x07;
    if let Ok(sk2) = ml_dsa_44::PrivateKey::try_from_bytes(b) {
        let r = std::panic::catch_unwind(move || sk2.into_bytes());
        assert!(r.is_ok(), "F2: into_bytes panicked on an accepted key");
    }
}

// F3: flip one t0 bit of a valid key: accepted, then get_public_key panics in a checked build
#[test]
fn f3_get_public_key_panics() {
    let (_pk, sk) = ml_dsa_44::KG::keygen_from_seed(&[7u8; 32]);
    let mut b = sk.into_bytes();
    let n = b.len();
    b[n - 1] ^= 0x10;
    let sk2 = ml_dsa_44::PrivateKey::try_from_bytes(b).expect("t0 is always in range");
    let r = std::panic::catch_unwind(move || sk2.get_public_key());
    assert!(r.is_ok(), "F3: get_public_key panicked on an accepted key");
}
