#!/usr/bin/env python3
"""
construct.py -- build a (public key, signature) pair for ML-DSA-87 that makes
fips204's `inv_ntt` (src/ntt.rs) overflow a 32-bit integer when reached through
the public `verify()` API.

Run with a python that has numpy:   /opt/veriftools/pyvenv/bin/python3 out/construct.py
Writes out/f1_vector.json next to this script.  Deterministic (no randomness).

Idea ("sparse coset"): z_j(X) = g_j(X^(256/M)) has only M non-zero coefficients, so
NTT(z_j)[n] takes only M distinct values, one per coset of 256/M indices n.  For every
(column j, coset i) all q candidate values v are scored by
    S(v) = sum_{n in coset i} centred_rep(a_hat[k][j][n] * v mod q)
and the best-scoring tuples whose interpolated coefficients g_j are all inside
[-gamma1+1, gamma1] are kept.  inv_ntt never reduces on the "sum" leg, so the output
coefficient 0 is the plain sum of all 256 inputs and exceeds 2^31.
"""
import hashlib
import itertools
import json
import os
import sys
import time
from multiprocessing import Pool

import numpy as np

Q = 8380417
ZETA = 1753
D = 13
# ML-DSA-87
K, L = 8, 7
GAMMA1 = 1 << 19
LAMBDA_DIV4 = 64
OMEGA = 75
PK_LEN, SIG_LEN = 2592, 4627

M = 4                      # non-zero coefficients per z_j  (stride 256/M)
STRIDE = 256 // M
TOPN = 64                  # candidates kept per (coset, column)
RHO = bytes(range(32))     # adversary-chosen rho (first 32 bytes of pk)
ROW = 0                    # targeted row k of A_hat
MESSAGE = b"f1 inv_ntt overflow demo"

I32_MIN, I32_MAX = -(1 << 31), (1 << 31) - 1


# ---------------------------------------------------------------- exact Rust-equivalent arithmetic
class Overflow(Exception):
    pass


def i32(x, where):
    if not (I32_MIN <= x <= I32_MAX):
        raise Overflow(f"i32 overflow in {where}: {x}")
    return x


def wrap32(x):
    x &= 0xFFFFFFFF
    return x - (1 << 32) if x >= (1 << 31) else x


def mont_reduce(a, where="mont_reduce"):
    QINV = 58728449
    if a < -17996808479301632:
        raise Overflow(f"mont_reduce input (a) debug_assert in {where}: {a}")
    if a > 17996808470921215:
        raise Overflow(f"mont_reduce input (b) debug_assert in {where}: {a}")
    t = wrap32(wrap32(a) * QINV)
    res = (a - t * Q) >> 32
    assert -Q < res < Q
    return res


def partial_reduce64(a):
    Mc = (1 << 48) // Q
    assert abs(a) < (67058539 << 32)
    x = a >> 23
    a = a - x * Q
    x = a >> 23
    a = a - x * Q
    q_ = (a * Mc) >> 48
    res = a - q_ * Q
    assert abs(res) < 2 * Q
    return res


def partial_reduce32(a):
    if abs(a) >= 2143289344:
        raise Overflow("partial_reduce32 input debug_assert")
    x = (a + (1 << 22)) >> 23
    return a - x * Q


def full_reduce32(a):
    x = partial_reduce32(a)
    return x + Q if x < 0 else x


def brv8(i):
    return int(f"{i:08b}"[::-1], 2)


def gen_zeta_table_mont():
    res = [0] * 256
    x = 1
    for i in range(256):
        res[brv8(i)] = (x << 32) % Q
        x = (x * ZETA) % Q
    return res


ZT = gen_zeta_table_mont()
assert ZT[0] == 4193792 and ZT[1] == 25847 and ZT[2] == 5771523


def ntt(w):
    w = list(w)
    m, ln = 0, 128
    while ln >= 1:
        start = 0
        while start < 256:
            m += 1
            zeta = ZT[m]
            for j in range(start, start + ln):
                t = mont_reduce(zeta * w[j + ln], "ntt")
                w[j + ln] = i32(w[j] - t, "ntt sub")
                w[j] = i32(w[j] + t, "ntt add")
            start += 2 * ln
        ln >>= 1
    return w


def inv_ntt(w_hat):
    """Exact model of src/ntt.rs inv_ntt for one polynomial; raises Overflow where Rust would panic."""
    F_MONT = (8347681 * (1 << 32)) % Q
    w = list(w_hat)
    m, ln = 256, 1
    while ln < 256:
        start = 0
        while start < 256:
            m -= 1
            zeta = -ZT[m]
            for j in range(start, start + ln):
                t = w[j]
                w[j] = i32(t + w[j + ln], f"inv_ntt line 13 (w[j] = t + w[j+len]) len={ln} j={j}")
                w[j + ln] = i32(t - w[j + ln], f"inv_ntt line 14 (t - w[j+len]) len={ln} j={j}")
                w[j + ln] = mont_reduce(zeta * w[j + ln], f"inv_ntt line 15 len={ln} j={j}")
            start += 2 * ln
        ln <<= 1
    return [full_reduce32(mont_reduce(F_MONT * x, "inv_ntt final")) for x in w]


def to_mont(v):
    return [partial_reduce64(x << 32) for x in v]


def rej_ntt_poly(seed34):
    buf = hashlib.shake_128(seed34).digest(3 * 256 * 3)
    out, p = [], 0
    while len(out) < 256:
        b0, b1, b2 = buf[p], buf[p + 1], buf[p + 2]
        p += 3
        z = ((b2 & 0x7F) << 16) | (b1 << 8) | b0
        if z < Q:
            out.append(z)
    return out


def expand_a_row(rho, r):
    return [rej_ntt_poly(rho + bytes([s, r])) for s in range(L)]


def crep(x):
    x %= Q
    return x - Q if x > Q // 2 else x


# ---------------------------------------------------------------- search
def scan_pair(args):
    """top-N candidate values v (mod q) for one (column j, coset i); returns (j, i, [(score, v)])."""
    j, i, coeffs = args
    half = (Q - 1) // 2
    best = []
    CH = 1 << 20
    for lo in range(1, half + 1, CH):
        v = np.arange(lo, min(lo + CH, half + 1), dtype=np.int64)
        s = np.zeros(v.shape, dtype=np.int64)
        for a in coeffs:
            r = (v * a) % Q
            s += r - Q * (r > half)
        # S(q - v) = -S(v): take both tails
        for sign in (1, -1):
            ss = sign * s
            idx = np.argpartition(ss, -TOPN)[-TOPN:]
            for t in idx:
                val = int(v[t]) if sign == 1 else Q - int(v[t])
                best.append((int(ss[t]), val))
        best.sort(reverse=True)
        best = best[:TOPN]
    return j, i, best


def main():
    t0 = time.time()
    a_row = expand_a_row(RHO, ROW)  # a_hat[ROW][j][n]

    # coset structure: NTT(X^STRIDE)[n] = r_n^STRIDE, a primitive 2M-th root of unity
    e = [0] * 256
    e[STRIDE] = 1
    rootpow = [x % Q for x in ntt(e)]
    roots = sorted(set(rootpow))
    assert len(roots) == M and all(pow(r, M, Q) == Q - 1 for r in roots)
    cosets = [[n for n in range(256) if rootpow[n] == r] for r in roots]
    assert all(len(c) == STRIDE for c in cosets)

    # inverse Vandermonde: g_l = M^-1 * sum_i v_i * root_i^-l
    minv = pow(M, -1, Q)
    vinv = [[minv * pow(roots[i], -l, Q) % Q for i in range(M)] for l in range(M)]
    for l, l2 in itertools.product(range(M), repeat=2):  # sanity: Vinv * V = I
        assert sum(vinv[l][i] * pow(roots[i], l2, Q) for i in range(M)) % Q == (1 if l == l2 else 0)

    jobs = [(j, i, [a_row[j][n] for n in cosets[i]]) for j in range(L) for i in range(M)]
    with Pool(min(16, os.cpu_count() or 1)) as pool:
        res = pool.map(scan_pair, jobs)
    cand = {(j, i): b for j, i, b in res}
    print(f"[{time.time()-t0:6.1f}s] scan done; best per-coset scores (in q):",
          [round(cand[(0, i)][0][0] / Q, 2) for i in range(M)], file=sys.stderr)

    z = [[0] * 256 for _ in range(L)]
    est_total = 0
    for j in range(L):
        assert M == 4
        vs = [np.array([c[1] for c in cand[(j, i)]], dtype=np.int64) for i in range(M)]
        sc = [np.array([c[0] for c in cand[(j, i)]], dtype=np.int64) for i in range(M)]
        shp = [(-1, 1, 1, 1), (1, -1, 1, 1), (1, 1, -1, 1), (1, 1, 1, -1)]
        ok = np.ones((TOPN,) * M, dtype=bool)
        gs = []
        for l in range(M):
            g = sum(((vinv[l][i] * vs[i]) % Q).reshape(shp[i]) for i in range(M)) % Q
            g = np.where(g > Q // 2, g - Q, g)
            ok &= (g >= -GAMMA1 + 1) & (g <= GAMMA1)
            gs.append(g)
        tot = sum(sc[i].reshape(shp[i]) for i in range(M))
        tot = np.where(ok, tot, -1)
        idx = np.unravel_index(np.argmax(tot), tot.shape)
        assert ok[idx], f"no small preimage for column {j}; raise TOPN"
        est_total += int(tot[idx])
        for l in range(M):
            z[j][l * STRIDE] = int(gs[l][idx])
        print(f"[{time.time()-t0:6.1f}s] column {j}: hits={int(ok.sum())} best score={tot[idx]/Q:.2f} q  "
              f"g={[z[j][l*STRIDE] for l in range(M)]}", file=sys.stderr)
    print(f"estimated sum of inv_ntt inputs for row {ROW}: {est_total/Q:.2f} q "
          f"(need > {2**31/Q:.2f} q)", file=sys.stderr)

    # ---------------------------------------------------------- exact replay of verify_internal step 9
    assert all(-GAMMA1 + 1 <= c <= GAMMA1 for p in z for c in p)
    z_hat = [ntt(p) for p in z]
    u = [to_mont(p) for p in z_hat]
    w_in = [0] * 256
    for j in range(L):
        for n in range(256):
            w_in[n] = i32(w_in[n] + mont_reduce(a_row[j][n] * u[j][n]), "mat_vec_mul")
    # t1 = 0  =>  t1_d2_hat_mont = 0  =>  subtracted term is mont_reduce(c_hat*0) = 0
    print(f"exact: sum(w_in)={sum(w_in)} = {sum(w_in)/Q:.3f} q, 2^31={2**31}, "
          f"max coeff={max(w_in)/Q:.2f} q, min coeff={min(w_in)/Q:.2f} q", file=sys.stderr)
    try:
        inv_ntt(w_in)
        print("exact model: NO overflow -- construction failed", file=sys.stderr)
        sys.exit(1)
    except Overflow as ex:
        print("exact model predicts panic:", ex, file=sys.stderr)
        predicted = str(ex)

    # ---------------------------------------------------------- encode
    pk = RHO + bytes(PK_LEN - 32)  # t1 = 0
    sig = bytearray(bytes(range(LAMBDA_DIV4)))  # arbitrary c_tilde
    for j in range(L):
        acc = 0
        for n in range(256):
            acc |= (GAMMA1 - z[j][n]) << (20 * n)
        sig += acc.to_bytes(32 * 20, "little")
    sig += bytes(OMEGA + K)  # empty hint, canonical
    assert len(pk) == PK_LEN and len(sig) == SIG_LEN

    out = {
        "set": "ml_dsa_87",
        "pk_hex": pk.hex(),
        "sig_hex": bytes(sig).hex(),
        "message_hex": MESSAGE.hex(),
        "ctx_hex": "",
        "expected": "panic in inv_ntt (overflow)",
        "row": ROW,
        "predicted": predicted,
        "sum_inv_ntt_input": sum(w_in),
    }
    path = os.path.join(os.path.dirname(os.path.abspath(__file__)), "f1_vector.json")
    with open(path, "w") as f:
        json.dump(out, f, indent=1)
        f.write("\n")
    print(f"[{time.time()-t0:6.1f}s] wrote {path}", file=sys.stderr)


if __name__ == "__main__":
    main()
