"""Native bounded fallback (labelled bounded, never counted as proved): kani/native_fallback.rs spliced into a scratch copy of the
real crate as a #[cfg(test)] module and run with cargo test (dev profile: debug assertions and overflow checks on)."""
import os, re, subprocess, shutil, json

TESTS = {
    'nf_bit_unpack': dict(fns=['bit_unpack', 'simple_bit_unpack'], props=['C10', 'C08', 'C13', 'C09'],
                          bound='each (a,b) the crate uses x every field index x 8 field values around the range end, on two backgrounds'),
    'nf_is_in_range': dict(fns=['is_in_range'], props=['C10', 'C08', 'C13'], bound='one-hot vectors: every index x values within 12 of each bound x the (lo,hi) pairs the crate uses'),
    'nf_hint_unpack': dict(fns=['hint_bit_unpack', 'sig_decode'], props=['C08', 'C02', 'C05', 'C13'],
                           bound='all 6^5 strings over {0,1,2,3,4,255} at k=2, omega=3; structured malformations at the three real sizes'),
    'nf_roundtrip_keys': dict(fns=['private_to_public_key', 'get_public_key', 'expand_public', 'expand_private', 'into_bytes', 'try_from_bytes',
                                   'key_gen_internal', 'keygen_from_seed', 'sign_internal', 'verify_internal'], props=['C01', 'C11', 'C09'],
                              bound='2 seeds x 3 parameter sets x {pure, SHA-256, SHA-512, SHAKE128} x {generated, round-tripped, derived} keys, 255-byte context (a sample, not a proof)'),
    'nf_pk_total': dict(fns=['expand_public', 'pk_decode', 'try_from_bytes', 'into_bytes', 'pk_encode'], props=['C09', 'C13', 'C02'],
                        bound='5 structured public-key byte strings per parameter set (all 0x00, all 0xFF, a pattern, zero t1, one-hot t1): accepted and re-serialised identically'),
    'nf_mprime_format': dict(fns=['sign_internal', 'verify_internal', 'hash_message', 'try_sign_with_rng', 'try_hash_sign_with_rng', 'verify', 'hash_verify'],
                             props=['C06', 'C05', 'C03', 'C02', 'C07', 'C01'],
                             bound='3 parameter sets x |ctx| in {0,1,2,17,254,255} x {pure, SHA-256, SHA-512, SHAKE128}: public entry points vs Sign/Verify_internal on the oracle-formatted M-prime (differential, one key and message)'),
    'nf_f1_vector': dict(fns=['inv_ntt', 'ntt', 'mat_vec_mul', 'verify_internal', 'verify', 'partial_reduce32', 'mont_reduce'], props=['C18', 'C13', 'C02'],
                         bound='one adversarial (public key, signature) pair for ML-DSA-87 (finding F1): verify returns false without panicking'),
    'nf_sk_total': dict(fns=['expand_private', 'sk_decode', 'sk_encode', 'try_from_bytes', 'into_bytes', 'inv_ntt', 'ntt'], props=['C09', 'C10', 'C13'],
                        bound='5 structured accepted private-key byte strings per parameter set (generated, arbitrary t0, zero t0 bytes, all s = +eta, all s = -eta): re-serialised identically'),
    'nf_infinity_norm': dict(fns=['infinity_norm', 'center_mod'], props=['C02', 'C01', 'C03', 'C15'],
                             bound='one-hot vectors at 4 indices x 5 values around each of 12 anchors (0, gamma1-beta, gamma2, (q-1)/2, q, domain end; both signs) and 7 two-hot vectors'),
    'nf_reductions': dict(fns=['partial_reduce64', 'partial_reduce32', 'full_reduce32', 'mont_reduce', 'to_mont', 'mat_vec_mul'], props=['C15', 'C18', 'C13', 'C09', 'C02'],
                          bound='partial_reduce64 on ~4200 points of its domain (powers of two, ends, multiples of q, LCG sweep), partial/full_reduce32 on ~950 points, mont_reduce on 100 caller-shaped products'),
    'nf_key_sweep': dict(fns=['key_gen_internal', 'private_to_public_key', 'get_public_key', 'keygen_from_seed', 'into_bytes', 'power2round', 'full_reduce32'],
                         props=['C11', 'C04', 'C09', 'C13'], profile='release-checked',
                         bound='48000 consecutive seeds over the three parameter sets (release build with debug assertions and overflow checks on): derived == generated public key bytes, every 32nd pair reloaded and re-serialised'),
    'nf_sk_fields': dict(fns=['sk_decode', 'expand_private', 'try_from_bytes', 'bit_unpack', 'is_in_range'], props=['C10', 'C13'],
                         bound='every s1/s2 field position x every field value, on one honestly generated key per parameter set'),
}


def run_native(repo, vdir, scratch, tests, timeout=1200):
    d = os.path.join(scratch, 'native_fb')
    if not os.path.isdir(d):
        subprocess.run(['rsync', '-a', '--exclude', '.git', '--exclude', 'fuzz', '--exclude', 'wasm', '--exclude', 'dudect',
                        '--exclude', 'ct_cm4', '--exclude', 'target', repo.rstrip('/') + '/', d + '/'], check=True)
        with open(os.path.join(d, 'src', 'lib.rs'), 'a') as fh:
            fh.write('\n#[cfg(test)] mod verif_native;\n')
        shutil.copy(os.path.join(vdir, 'kani', 'native_fallback.rs'), os.path.join(d, 'src', 'verif_native.rs'))
        f1 = json.load(open(os.path.join(vdir, 'findings', 'F1', 'f1_vector.json')))
        with open(os.path.join(d, 'src', 'verif_native_f1.rs'), 'w') as fh:
            fh.write('pub(super) const PK_HEX: &str = "%s";\npub(super) const SIG_HEX: &str = "%s";\npub(super) const MSG_HEX: &str = "%s";\n' % (f1['pk_hex'], f1['sig_hex'], f1['message_hex']))
    env = dict(os.environ, CARGO_NET_OFFLINE='true', RUSTFLAGS='--cap-lints=warn', CARGO_TARGET_DIR=os.path.join(scratch, 'native_target'))
    res = {}
    heavy = [t for t in tests if TESTS[t].get('profile') == 'release-checked']
    tests = [t for t in tests if t not in heavy]
    for t in heavy:
        # optimised build, but with the library's self-checks and integer-overflow checks compiled in
        env2 = dict(env, RUSTFLAGS='--cap-lints=warn -C debug-assertions=on -C overflow-checks=on', CARGO_TARGET_DIR=os.path.join(scratch, 'native_target_rel'))
        try:
            p = subprocess.run(['cargo', 'test', '--release', '--offline', '--lib', 'verif_native::' + t, '--', '--ignored', '--exact'], cwd=d, env=env2,
                               capture_output=True, text=True, timeout=timeout)
            out = p.stdout + p.stderr
            m = re.search(r'test verif_native::%s \.\.\. (ok|FAILED)' % t, out)
            mm = re.search(r"thread 'verif_native::%s'[^\n]*panicked at [^\n]*\n([^\n]*)" % t, out)
            res[t] = dict(status=(m.group(1) if m else 'NOT_RUN'), message=(mm.group(1).strip() if mm else ('' if m else out[-600:])), bound=TESTS[t]['bound'])
        except subprocess.TimeoutExpired:
            res[t] = dict(status='TIMEOUT', message='', bound=TESTS[t]['bound'])
    if not tests:
        return res
    try:
        p = subprocess.run(['cargo', 'test', '--offline', '--lib', 'verif_native', '--', '--test-threads', '4'], cwd=d, env=env,
                           capture_output=True, text=True, timeout=timeout)
        out = p.stdout + p.stderr
    except subprocess.TimeoutExpired:
        return {t: dict(status='TIMEOUT', message='') for t in tests}
    for t in tests:
        m = re.search(r'test verif_native::%s \.\.\. (ok|FAILED)' % t, out)
        msg = ''
        mm = re.search(r"thread 'verif_native::%s'[^\n]*panicked at [^\n]*\n([^\n]*)" % t, out)
        if mm:
            msg = mm.group(1).strip()
        res[t] = dict(status=(m.group(1) if m else 'NOT_RUN'), message=msg, bound=TESTS[t]['bound'])
    if all(r['status'] == 'NOT_RUN' for r in res.values()):
        for r in res.values():
            r['message'] = out[-600:]
    return res
