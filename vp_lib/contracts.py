"""Parser for the contract files in /verif/contracts/*.vc.

Format (line oriented):

    === fn helpers::mont_reduce
    mode: proved            # proved | trusted | proved-kani
    props: C15 C18          # default property tags of every clause / built-in obligation of this fn
    ret: res                # name given to the return value
    attrs: #[verifier::...] # emitted before the fn
    requires:
        [C13] clause,       # an optional leading [tags] re-tags the following lines of the block
        clause,
    ensures:
        ...
    decreases: expr
    loop 1:                 # text inserted between the header of the 1st loop (textual order) and its '{'
        invariant ...,
        decreases ...
    closure 2: (n: usize) -> (e: i32)
        requires n < 256,
        ensures ...
    at body.start: | at body.end: | at loop 2.start: | at loop 2.end: | at before `text`: | at after `text`:
        proof { ... }
    rewrite [all] `old text` => `new text`     # exact textual rewrite inside this fn (reported per run)
    drop `text`             # same as rewrite to empty

Blocks are the indented lines that follow a `key:` line.
"""
import re


class Contract:
    def __init__(self, key, path, line):
        self.key, self.path, self.line = key, path, line
        self.mode = 'proved'
        self.props = []
        self.ret = None
        self.attrs = []
        self.requires = None   # list of (tags, text) lines
        self.ensures = None
        self.decreases = None
        self.loops = {}        # n -> list of (tags,text)
        self.closures = {}     # n -> (header, lines)
        self.ats = []          # (pos, lines)
        self.rewrites = []     # (old, new, all?)
        self.rewrites_re = []  # (regex, template)
        self.rewrites_const = []  # (const name, literal value): fn-local const initialiser replaced by its value (checked natively)
        self.kani = []         # harness names that discharge this contract
        self.note = ''
        self.sig = None        # replacement signature (trusted fns whose signature Verus cannot take)
        self.body = None       # replacement body for trusted (external_body) fns: default unimplemented!()


TAG_RE = re.compile(r'^\s*\[((?:C\d+\s*)+)\]\s*')


def _tagged(lines, default):
    cur = list(default)
    out = []
    for ln in lines:
        m = TAG_RE.match(ln)
        if m:
            cur = m.group(1).split()
            ln = ln[:len(ln) - len(ln.lstrip())] + ln[m.end():]
        out.append((tuple(cur), ln))
    return out


def parse_file(path):
    units = {}
    cur = None
    lines = open(path).read().split('\n')
    i = 0

    def block(i):
        blk = []
        while i < len(lines) and (lines[i].startswith((' ', '\t')) or lines[i].strip() == ''):
            blk.append(lines[i])
            i += 1
        while blk and blk[-1].strip() == '':
            blk.pop()
        return blk, i

    pending = []  # (kind, arg, blocklines) resolved after props known
    while i < len(lines):
        ln = lines[i]
        if ln.startswith('#') or ln.strip() == '':
            i += 1
            continue
        if ln.startswith('=== '):
            if cur:
                _finish(cur, pending)
            parts = ln[4:].split()
            assert parts[0] == 'fn', (path, i + 1, ln)
            cur = Contract(parts[1], path, i + 1)
            assert cur.key not in units, 'duplicate contract ' + cur.key
            units[cur.key] = cur
            pending = []
            i += 1
            continue
        assert cur is not None, (path, i + 1, ln)
        m = re.match(r'^rewrite_const\s+`(\w+)`\s*=>\s*`(.*)`\s*$', ln)
        if m:
            cur.rewrites_const.append((m.group(1), m.group(2)))
            i += 1
            continue
        m = re.match(r'^(rewrite_re|drop_re)\s+`(.*?)`(?:\s*=>\s*`(.*)`)?\s*$', ln)
        if m:
            cur.rewrites_re.append((m.group(2), m.group(3) or ''))
            i += 1
            continue
        m = re.match(r'^(rewrite|drop)\s+(all\s+)?`(.*?)`(?:\s*=>\s*`(.*)`)?\s*$', ln)
        if m:
            cur.rewrites.append((m.group(3), m.group(4) or '', bool(m.group(2))))
            i += 1
            continue
        m = re.match(r'^at ((?:each )?(?:before|after)) `(.*)`:\s*$', ln) or re.match(r'^at ()(body\.start|body\.end|body\.tail|loop \d+\.(?:start|end|after)):\s*$', ln)
        if m:
            i += 1
            blk, i = block(i)
            pending.append(('at', (m.group(1), m.group(2)), blk))
            continue
        m = re.match(r'^([a-z_]+(?: [^:]*?)?):\s*(.*)$', ln)
        assert m, 'cannot parse %s:%d: %s' % (path, i + 1, ln)
        key, val = m.group(1), m.group(2)
        i += 1
        blk, i2 = block(i)
        if key in ('mode', 'ret', 'note'):
            setattr(cur, key, val.strip())
        elif key == 'props':
            cur.props = val.split()
        elif key == 'kani':
            cur.kani = val.split()
        elif key == 'attrs':
            cur.attrs.append(val.strip())
        elif key == 'decreases':
            cur.decreases = val.strip()
        elif key in ('sig', 'body'):
            txt = ([val] if val.strip() else []) + blk
            setattr(cur, key, '\n'.join(txt))
            i = i2
        elif key in ('requires', 'ensures'):
            pending.append((key, None, ([val] if val.strip() else []) + blk))
            i = i2
        elif key.startswith('loop '):
            pending.append(('loop', int(key.split()[1]), blk))
            i = i2
        elif key.startswith('mapfn '):
            # sugar for `core::array::from_fn(|k| TY(core::array::from_fn(|n| EXPR)))`:
            #   mapfn N: k K TY  /  lines = conjuncts over $e (element), $k, $n ; after `--` : proof text for the inner body
            n0 = int(key.split()[1])
            var, bound, ty = val.split()[:3]
            ivar = (val.split() + ['n'])[3] if len(val.split()) > 3 else 'n'
            body = [l for l in blk]
            split = [ix for ix, l in enumerate(body) if l.strip() == '--']
            conj, proof = (body[:split[0]], body[split[0] + 1:]) if split else (body, [])
            conj = [c.strip().rstrip(',') for c in conj if c.strip()]
            def sub(c, e, k, n):
                return c.replace('$e', e).replace('$k', k).replace('$n', n)
            outer = ['    requires %s < %s,' % (var, bound), '    ensures forall|%s: int| 0 <= %s < 256 ==> ' % (ivar, ivar) +
                     ' && '.join('(' + sub(c, ('#[trigger] o.0[%s]' % ivar) if ix == 0 and '$e' in c else 'o.0[%s]' % ivar, '(%s as int)' % var, ivar) + ')'
                                 for ix, c in enumerate(conj)) + ',']
            # make sure a trigger exists even if the first conjunct has no $e
            if not any('$e' in c for c in conj[:1]):
                outer[1] = outer[1].replace('o.0[%s]' % ivar, '#[trigger] o.0[%s]' % ivar, 1)
            inner = ['    requires %s < 256,' % ivar, '    ensures ' + ', '.join(sub(c, 'e', '(%s as int)' % var, '(%s as int)' % ivar) for c in conj) + ',']
            if proof:
                inner += ['    --'] + proof
            pending.append(('closure', (n0, '(%s: usize) -> (o: %s)' % (var, ty)), outer))
            pending.append(('closure', (n0 + 1, '(%s: usize) -> (e: i32)' % ivar), inner))
            i = i2
        elif key.startswith('closure '):
            pending.append(('closure', (int(key.split()[1]), val.strip()), blk))
            i = i2
        else:
            raise AssertionError('unknown key %r at %s:%d' % (key, path, i))
    if cur:
        _finish(cur, pending)
    return units


def _finish(c, pending):
    for kind, arg, blk in pending:
        tl = _tagged(blk, c.props)
        if kind == 'requires':
            c.requires = tl
        elif kind == 'ensures':
            c.ensures = tl
        elif kind == 'loop':
            c.loops[arg] = tl
        elif kind == 'closure':
            c.closures[arg[0]] = (arg[1], tl)
        elif kind == 'at':
            c.ats.append((arg, tl))


def load_all(dirpath):
    import glob, os
    allc = {}
    for p in sorted(glob.glob(os.path.join(dirpath, '*.vc'))):
        for k, v in parse_file(p).items():
            assert k not in allc, 'duplicate contract ' + k
            allc[k] = v
    return allc
