"""Run the verifiers on the freshly extracted mirror / scratch copy and classify the outcome."""
import json, os, re, subprocess, shutil, tempfile, time, sys
from .mirror import build_mirror, ToolError

VERUS = shutil.which('verus') or '/usr/local/bin/verus'


def scratch_dir(tag='vp'):
    base = os.environ.get('VP_TMPDIR') or ('/dev/shm' if os.path.isdir('/dev/shm') else tempfile.gettempdir())
    return tempfile.mkdtemp(prefix='%s_%d_' % (tag, os.getpid()), dir=base)


def run_verus(mirror_path, modules=None, rlimit=None, threads=16, extra=None, timeout=1800, multiple_errors=6):
    cmd = [VERUS, os.path.basename(mirror_path), '--output-json', '--time-expanded', '--error-format=json',
           '--multiple-errors', str(multiple_errors), '--num-threads', str(threads)]
    if rlimit:
        cmd += ['--rlimit', str(rlimit)]
    for m in (modules or []):
        cmd += ['--verify-module', m]
    cmd += (extra or [])
    t0 = time.time()
    try:
        p = subprocess.run(cmd, cwd=os.path.dirname(mirror_path), capture_output=True, text=True, timeout=timeout)
    except subprocess.TimeoutExpired:
        # a verifier that does not come back: undecided, never an alarm (the caller falls back to the bounded native oracles)
        return dict(cmd=' '.join(cmd), rc=-9, wall=time.time() - t0, diags=[], raw=['verus timed out after %ss' % timeout], result=None, stdout='',
                    timed_out=True)
    wall = time.time() - t0
    diags, raw = [], []
    for ln in p.stderr.split('\n'):
        ln = ln.strip()
        if ln.startswith('{'):
            try:
                diags.append(json.loads(ln))
                continue
            except Exception:
                pass
        if ln:
            raw.append(ln)
    res = None
    try:
        i = p.stdout.index('{')
        res = json.loads(p.stdout[i:])
    except Exception:
        pass
    return dict(cmd=' '.join(cmd), rc=p.returncode, wall=wall, diags=diags, raw=raw, result=res, stdout=p.stdout)


def span_lines(spans):
    """line numbers of the spans and of the macro call sites they expand from (debug_assert! -> assert! -> panic!: the innermost span is
    in the prelude, the call site is at the end of the expansion chain)"""
    out = []
    for sp in spans:
        cur = sp
        while cur:
            out.append(cur['line_start'])
            cur = (cur.get('expansion') or {}).get('span')
    return out


# 'loop must have a decreases clause': a loop the contracts do not know (e.g. an iterator chain rewritten by hand into a `while`): a missing
# annotation, not a failed obligation -> undecided (the native oracles covering the function are consulted), never an alarm by itself
UNDECIDED_PAT = re.compile(r'rlimit|resource limit|timed? ?out|could not finish|incomplete|loop must have a decreases', re.I)


def classify(b, vr):
    """-> (failures, undecided, toolerrors); each failure is a dict. classify.bad_fns: fns in which the front end reported an error."""
    failures, undecided, toolerrs = [], [], []
    classify.bad_fns = set()
    res = vr['result']
    if res is None:
        toolerrs.append('verus produced no JSON result (rc=%s): %s' % (vr['rc'], ' | '.join(vr['raw'][-5:])))
    for d in vr['diags']:
        if d.get('level') != 'error':
            continue
        msg = d.get('message', '')
        if msg.startswith('aborting due to'):
            continue
        spans = d.get('spans', [])
        prim = [s for s in spans if s.get('is_primary')] or spans
        if not prim:
            toolerrs.append(msg)
            continue
        pl = prim[0]['line_start']
        fn = b.fn_at(pl)
        if fn is None:
            # the primary span can sit in the prelude (e.g. the `requires false` of the panic path of debug_assert!): the call site decides
            for ln in span_lines(spans):
                g = b.fn_at(ln)
                if g is not None:
                    fn, pl = g, ln
                    break
        rec = dict(message=msg, mirror_line=pl, fn=(fn['key'] if fn else None), instance=(fn['instance'] if fn else None),
                   rendered=d.get('rendered', ''), spans=[])
        tags = None
        clause = None
        for s in ([p for p in prim] + [s for s in spans if not s.get('is_primary')]):
            o = b.origin(s['line_start'])
            text = ' '.join(t['text'].strip() for t in s.get('text', []))
            rec['spans'].append(dict(label=s.get('label'), origin=o, text=text, line=s['line_start']))
            if o.get('kind') == 'contract':
                if clause is None or (s.get('label') or '').startswith('failed'):
                    clause = text
                if o.get('tags') and (tags is None or (s.get('label') or '').startswith('failed')):
                    tags = o['tags']
        if tags is None:
            # no clause named by the diagnostic (e.g. a resource error on the whole body): every property the function carries
            tags = sorted(set(fn['props']) | set(fn.get('clause_tags') or [])) if fn else []
        rec['tags'] = tags
        rec['clause'] = clause
        # the source location a reader should look at
        src = [x for x in rec['spans'] if x['origin'].get('kind') == 'src' and x['origin'].get('line')]
        rec['src'] = ('%s:%s' % (src[0]['origin']['file'], src[0]['origin']['line'])) if src else (
            ('%s:%s' % (fn['file'], fn['src_line'])) if fn else None)
        rec['src_text'] = src[0]['text'] if src else None
        is_verif = any(k in msg for k in (
            'postcondition not satisfied', 'precondition not satisfied', 'assertion failed', 'invariant not satisfied',
            'possible arithmetic underflow/overflow', 'possible division by zero', 'index out of bounds',
            'possible bit shift underflow/overflow', 'decreases not satisfied', 'recommendation not met',
            'unreachable', 'cannot prove termination', 'loop must have a decreases', 'split',
            'might fail', 'not satisfied', 'unable to prove', 'possible', 'cannot show', 'failed'))
        if UNDECIDED_PAT.search(msg):
            undecided.append(rec)
        elif is_verif:
            failures.append(rec)
        else:
            toolerrs.append('%s (mirror.rs:%d%s)' % (msg, pl, (', fn ' + fn['key']) if fn else ''))
            if fn:
                classify.bad_fns.add(fn['key'])
    if res is not None:
        vres = res.get('verification-results', {})
        if vres.get('encountered-vir-error'):
            toolerrs.append('verus reported a VIR error')
        ok = vres.get('success', vres.get('errors', 1) == 0 and not vres.get('encountered-error'))
        if not ok and not failures and not undecided and not toolerrs:
            toolerrs.append('verus reported failure without a classifiable diagnostic: ' + ' | '.join(vr['raw'][-5:]))
    return failures, undecided, toolerrs


def function_breakdown(vr):
    out = {}
    res = vr['result'] or {}
    smt = res.get('times-ms', {}).get('smt', {})
    for mod in smt.get('smt-run-module-times', []):
        for f in mod.get('function-breakdown', []):
            name = f['function']
            e = out.setdefault(name, dict(time_ms=0, rlimit=0, success=True, queries=0))
            e['time_ms'] += f.get('time', 0)
            e['rlimit'] += f.get('rlimit', 0)
            e['queries'] += 1
            e['success'] = e['success'] and f.get('success', False)
    return out
