"""Kani on a scratch copy of the real crate: splice `#[cfg(kani)] mod verif_kani;` + harness file, run, parse."""
import os, re, subprocess, shutil, time, json


def prepare_copy(repo, vdir, dst):
    subprocess.run(['rsync', '-a', '--exclude', '.git', '--exclude', 'fuzz', '--exclude', 'wasm', '--exclude', 'dudect',
                    '--exclude', 'ct_cm4', '--exclude', 'target', repo.rstrip('/') + '/', dst + '/'], check=True)
    with open(os.path.join(dst, 'src', 'lib.rs'), 'a') as fh:
        fh.write('\n#[cfg(kani)] mod verif_kani;\n')
    shutil.copy(os.path.join(vdir, 'kani', 'verif_kani.rs'), os.path.join(dst, 'src', 'verif_kani.rs'))


def run_kani(dst, harnesses, timeout=3000, jobs=8, extra=None):
    """Run the named harnesses in one cargo-kani invocation. Returns dict name -> result dict."""
    env = dict(os.environ, CARGO_NET_OFFLINE='true', RUSTFLAGS='--cap-lints=warn')
    cmd = ['cargo', 'kani', '-Z', 'stubbing', '-Z', 'function-contracts', '-j', str(jobs), '--output-format', 'terse']
    for h in harnesses:
        cmd += ['--harness', h]
    cmd += (extra or [])
    t0 = time.time()
    try:
        p = subprocess.run(cmd, cwd=dst, env=env, capture_output=True, text=True, timeout=timeout)
        out = p.stdout + '\n' + p.stderr
        rc = p.returncode
    except subprocess.TimeoutExpired as e:
        out = ((e.stdout or b'').decode(errors='replace') if isinstance(e.stdout, bytes) else (e.stdout or '')) + '\nTIMEOUT'
        rc = -9
    wall = time.time() - t0
    res = {}
    # terse + --jobs format: "Thread N: Checking harness X..." then a block introduced by "Thread N: " per result
    cur = {}
    blocks = re.split(r'(?m)^Thread (\d+): ?', out)
    for i in range(1, len(blocks), 2):
        th, body = blocks[i], blocks[i + 1]
        mh = re.match(r'Checking harness ([A-Za-z0-9_:]+)\.\.\.', body)
        if mh:
            cur[th] = mh.group(1).split('::')[-1]
            body = body[mh.end():]
            if 'VERIFICATION' not in body:
                continue
        name = cur.get(th)
        if name is None:
            continue
        status = 'UNKNOWN'
        m = re.search(r'VERIFICATION:- (SUCCESSFUL|FAILED)', body)
        if m:
            status = m.group(1)
        elif 'CBMC timed out' in body or 'out of memory' in body.lower():
            status = 'TIMEOUT'
        checks = re.search(r'\*\* (\d+) of (\d+) failed', body)
        failed_checks = re.findall(r'(?m)^Failed Checks: (.*)$', body)
        covers = re.search(r'\*\* (\d+) of (\d+) cover properties satisfied', body)
        vt = re.search(r'Verification Time: ([0-9.]+)s', body)
        res[name] = dict(status=status, checks_total=int(checks.group(2)) if checks else None,
                         checks_failed=int(checks.group(1)) if checks else None, failed=failed_checks,
                         covers=(int(covers.group(1)), int(covers.group(2))) if covers else None,
                         time_s=float(vt.group(1)) if vt else None,
                         stubs=re.findall(r'(?m)^\s*- Stub: (.*)$', body), tail=body[-1500:])
    for h in harnesses:
        if h not in res:
            res[h] = dict(status='NOT_RUN', tail=out[-2000:], failed=[], checks_total=None, checks_failed=None, covers=None,
                          time_s=None, stubs=[])
    return dict(cmd=' '.join(cmd), rc=rc, wall=wall, results=res, out_tail=out[-3000:])
