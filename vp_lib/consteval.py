"""Native checks of the literals the mirror uses instead of const expressions rustc evaluates at compile time:
 * `rewrite_const`: fn-local const initialisers (e.g. F_MONT in inv_ntt);
 * `modconsts`: the per-parameter-set constants of lib.rs (incl. BETA, LAMBDA_DIV4, W1_LEN computed in the macro).
The original expressions are copied verbatim from /repo into a tiny program, compiled with rustc and run."""
import os, subprocess, re
from . import rustscan as rs


def check_consts(b, scratch):
    if not b.const_checks and not b.modconsts:
        return []
    lib = b.src['lib.rs']
    consts = '\n'.join(re.findall(r'(?m)^const (?:Q|ZETA|D): [a-z0-9]+ = [^;]*;', lib.text))
    hs = b.src['helpers.rs']
    sp = rs.find_fn(hs.mask, 'bit_length')
    bitlen = hs.text[sp.start:sp.end].replace('pub(crate)', 'pub') if sp else ''
    body = ''
    for c in b.const_checks:
        body += '    { const X: %s = %s; assert_eq!(X as i128, (%s) as i128, "%s::%s"); }\n' % (c['ty'], c['expr'], c['value'], c['fn'], c['name'])
    mods = ''
    msp = rs.find_item(lib.mask, r'macro_rules! functionality')
    mconsts = ''
    if msp:
        mconsts = '\n'.join(m.group(0).strip() for m in re.finditer(r'(?m)^[ \t]*const\s+[A-Z0-9_]+\s*:[^;]*;', lib.text[msp.body_open:msp.body_close]))
    for mc in b.modconsts:
        sp2 = rs.find_item(lib.mask, r'pub mod ' + mc['module'] + r'\b')
        if sp2 is None:
            return ['const-eval: module %s not found in lib.rs' % mc['module']]
        lines = '\n'.join(m.group(0).strip() for m in re.finditer(r'(?m)^[ \t]*(?:pub\s+)?const\s+[A-Z0-9_]+\s*:[^;]*;', lib.text[sp2.body_open:sp2.body_close]))
        checks = '\n'.join('        assert_eq!(%s as i128, (%s) as i128, "%s::%s");' % (k, v, mc['module'], k) for k, v in mc['values'].items())
        mods += 'mod %s {\n    use super::*;\n%s\n%s\n    pub fn check() {\n%s\n    }\n}\n' % (mc['module'], lines, mconsts, checks)
        body += '    %s::check();\n' % mc['module']
    src = ('#![allow(dead_code, unused_imports)]\n' + consts + '\nmod helpers { use super::*; ' + bitlen + ' }\n' + mods +
           'fn main() {\n' + body + '    println!("const-eval ok");\n}\n')
    d = os.path.join(scratch, 'consteval')
    os.makedirs(d, exist_ok=True)
    open(os.path.join(d, 'c.rs'), 'w').write(src)
    p = subprocess.run(['rustc', '-O', '-o', 'c', 'c.rs'], cwd=d, capture_output=True, text=True)
    if p.returncode != 0:
        return ['const-eval compile failed: ' + p.stderr[-800:]]
    p = subprocess.run(['./c'], cwd=d, capture_output=True, text=True)
    if p.returncode != 0 or 'const-eval ok' not in p.stdout:
        return ['const-eval mismatch: ' + (p.stderr or p.stdout)[-500:]]
    return []
