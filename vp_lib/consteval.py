"""Native check of `rewrite_const`: the original initialiser expression of a fn-local const is const-evaluated by rustc
and compared with the literal the mirror uses instead."""
import os, subprocess, re


def check_consts(b, scratch):
    if not b.const_checks:
        return []
    lib = b.src['lib.rs'].text
    consts = '\n'.join(re.findall(r'(?m)^const (?:Q|ZETA|D): [a-z0-9]+ = [^;]*;', lib))
    body = ''
    for i, c in enumerate(b.const_checks):
        body += '    { const X: %s = %s; assert_eq!(X as i128, (%s) as i128, "%s::%s"); }\n' % (c['ty'], c['expr'], c['value'], c['fn'], c['name'])
    src = '#![allow(dead_code)]\n' + consts + '\nfn main() {\n' + body + '    println!("const-eval ok");\n}\n'
    d = os.path.join(scratch, 'consteval')
    os.makedirs(d, exist_ok=True)
    open(os.path.join(d, 'c.rs'), 'w').write(src)
    p = subprocess.run(['rustc', '-O', '-o', 'c', 'c.rs'], cwd=d, capture_output=True, text=True)
    if p.returncode != 0:
        return ['const-eval compile failed: ' + p.stderr[-500:]]
    p = subprocess.run(['./c'], cwd=d, capture_output=True, text=True)
    if p.returncode != 0 or 'const-eval ok' not in p.stdout:
        return ['const-eval mismatch: ' + (p.stderr or p.stdout)[-500:]]
    return []
