"""Vacuity guard: a second extraction in which every proved function carrying the property gets `assert(false)` at
the start of its body and of each loop body. Every canary must FAIL; one that verifies means a contradictory
precondition / invariant (the real obligations of that function would then hold vacuously)."""
import os, re
from .mirror import build_mirror
from . import run as vrun


def canary_run(repo, vdir, scratch, P):
    path = os.path.join(scratch, 'canary', 'mirror.rs')
    os.makedirs(os.path.dirname(path), exist_ok=True)
    b = build_mirror(repo, vdir, path, canary=lambda c: c.mode == 'proved' and (P in c.props or any(
        P in tags for blk in [c.requires or [], c.ensures or []] for tags, _ in blk)))
    if not b.canaries:
        return dict(planted=0, failed_as_expected=0, vacuous=[])
    mods = sorted(set(inst for _, inst, _ in b.canaries if inst))
    vr = vrun.run_verus(path, mods, 8, 8, None, 1500, 3)
    lines = b.text().split('\n')
    planted = {}
    for i, ln in enumerate(lines):
        m = re.search(r'// CANARY (\S+) (\S+)', ln)
        if m:
            planted[i + 1] = (m.group(1), m.group(2))
    hit = set()
    for d in vr['diags']:
        if d.get('level') != 'error':
            continue
        for s in d.get('spans', []):
            if s['line_start'] in planted and 'assertion failed' in d.get('message', ''):
                hit.add(s['line_start'])
    # a function whose query ran out of resources could not prove `false` either: inconclusive, not vacuous
    rl_fns = set()
    for d in vr['diags']:
        if d.get('level') == 'error' and 'rlimit' in d.get('message', '').lower():
            for s in d.get('spans', []):
                f = b.fn_at(s['line_start'])
                if f:
                    rl_fns.add((f['key'], f['instance']))
    def fn_of(l):
        f = b.fn_at(l)
        return (f['key'], f['instance']) if f else None
    vac = ['%s@%s (mirror line %d)' % (planted[l][0], planted[l][1], l) for l in planted if l not in hit and fn_of(l) not in rl_fns]
    err = None
    if vr['result'] is None:
        err = 'verus produced no result: ' + ' | '.join(vr['raw'][-3:])
        vac = []
    return dict(planted=len(planted), failed_as_expected=len(hit), inconclusive_rlimit=len([l for l in planted if l not in hit and fn_of(l) in rl_fns]), vacuous=vac, error=err, wall_s=round(vr['wall'], 1))
