"""Counterexamples: Verus gives none, so when an obligation of function f fails, the Kani harnesses registered
for f are run with concrete playback; the concrete input is decoded and replayed NATIVELY against the real
function (a #[cfg(test)] module spliced into a scratch copy of the crate)."""
import os, re, subprocess, json, shutil, struct
from . import kani as vkani

FMT = {'u8': ('<B', 1), 'i8': ('<b', 1), 'u16': ('<H', 2), 'i16': ('<h', 2), 'u32': ('<I', 4), 'i32': ('<i', 4),
       'u64': ('<Q', 8), 'i64': ('<q', 8), 'usize': ('<Q', 8), 'bool': ('<B', 1)}


def _decode(vals, types):
    out = []
    for v, t in zip(vals, types):
        m = re.match(r'\[(\w+);\s*(\d+)\]', t)
        if m:
            et, n = m.group(1), int(m.group(2))
            f, sz = FMT[et]
            out.append('[' + ', '.join(str(struct.unpack(f, bytes(v[i * sz:(i + 1) * sz]))[0]) for i in range(n)) + ']')
        else:
            f, sz = FMT[t]
            x = struct.unpack(f, bytes(v[:sz]))[0]
            out.append(('true' if x else 'false') if t == 'bool' else str(x))
    return out


def kani_playback(repo, vdir, scratch, h, timeout=1500):
    """Run harness h with concrete playback; decode the values; replay natively. Returns dict or None."""
    if not h.get('inputs') or not h.get('native'):
        return None
    kdir = os.path.join(scratch, 'kani_pb_' + h['name'])
    if not os.path.isdir(kdir):
        os.makedirs(kdir)
        vkani.prepare_copy(repo, vdir, kdir)
    env = dict(os.environ, CARGO_NET_OFFLINE='true', RUSTFLAGS='--cap-lints=warn')
    p = subprocess.run(['cargo', 'kani', '-Z', 'stubbing', '-Z', 'function-contracts', '--harness', h['name'], '-Z', 'concrete-playback',
                        '--concrete-playback=print'], cwd=kdir, env=env, capture_output=True, text=True, timeout=timeout)
    txt = p.stdout + p.stderr
    blocks = re.findall(r'let concrete_vals: Vec<Vec<u8>> = vec!\[(.*?)\];', txt, re.S)
    if not blocks:
        return dict(replayed=False, note='kani produced no concrete playback', kani_tail=txt[-1500:])
    # Kani prints one playback per failed check AND per satisfied cover: replay each natively until one fails
    last = None
    seen = set()
    for blk in blocks:
        vals = [[int(x) for x in re.findall(r'\d+', v)] for v in re.findall(r'vec!\[([0-9,\s]*)\]', blk)]
        try:
            dec = _decode(vals, h['inputs'])
        except Exception as e:
            last = dict(replayed=False, note='could not decode playback values: %r' % e, raw=vals)
            continue
        if tuple(dec) in seen:
            continue
        seen.add(tuple(dec))
        last = native_replay(repo, scratch, h, dec)
        if last.get('replayed'):
            return last
    return last


def native_replay(repo, scratch, h, dec):
    """Splice a #[cfg(test)] module calling the real function with the concrete input; the test asserts the contract."""
    ndir = os.path.join(scratch, 'native_' + h['name'])
    if os.path.isdir(ndir):
        shutil.rmtree(ndir)
    subprocess.run(['rsync', '-a', '--exclude', '.git', '--exclude', 'fuzz', '--exclude', 'wasm', '--exclude', 'dudect',
                    '--exclude', 'ct_cm4', '--exclude', 'target', repo.rstrip('/') + '/', ndir + '/'], check=True)
    code = h['native']
    for i, v in enumerate(dec):
        code = code.replace('{v%d}' % i, v)
    with open(os.path.join(ndir, 'src', 'lib.rs'), 'a') as fh:
        fh.write('\n#[cfg(test)] mod verif_replay;\n')
    with open(os.path.join(ndir, 'src', 'verif_replay.rs'), 'w') as fh:
        fh.write('#![allow(unused_imports, clippy::all)]\nuse crate::helpers::*;\nuse crate::high_low::*;\nuse crate::conversion::*;\n'
                 'use crate::types::*;\nuse crate::Q;\n#[test]\nfn verif_replay() {\n' + code + '\n}\n')
    env = dict(os.environ, CARGO_NET_OFFLINE='true', RUSTFLAGS='--cap-lints=warn',
               CARGO_TARGET_DIR=os.path.join(scratch, 'native_target'))
    p = subprocess.run(['cargo', 'test', '--offline', '--lib', 'verif_replay'], cwd=ndir, env=env, capture_output=True, text=True,
                       timeout=1500)
    txt = p.stdout + p.stderr
    failed = 'test verif_replay::verif_replay ... FAILED' in txt or 'panicked at' in txt
    return dict(replayed=bool(failed), inputs=dict(zip(['v%d' % i for i in range(len(dec))], dec)), function=h.get('fn'),
                native_test=code, native_output=txt[-1200:],
                replay_cmd='splice the native_test into src/verif_replay.rs of a copy of /repo (see vp_lib/replay.py) and run cargo test --lib verif_replay')


def try_counterexample(repo, vdir, scratch, f, hz):
    """f: a failed Verus obligation. Use the Kani harnesses whose `fn` is the same function."""
    fn = (f.get('fn') or '').split('::')[-1]
    cands = [h for h in hz if h.get('fn') == fn and h.get('native')]
    for h in cands[:2]:
        try:
            r = kani_playback(repo, vdir, scratch, h)
        except Exception as e:  # noqa
            r = dict(replayed=False, note='playback error %r' % e)
        if r and r.get('replayed'):
            r['harness'] = h['name']
            return r
    return None
