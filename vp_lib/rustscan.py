"""Light-weight lexical scanning of Rust source: enough to locate items, bodies, loops and
closures by brace matching while ignoring comments, strings and char literals.  Nothing here
interprets Rust; the extractor only ever copies text spans verbatim."""
import re


def mask(src: str) -> str:
    """Same length as src; comments, string and char literal *contents* replaced by spaces
    (newlines kept) so that regexes and bracket matching only see code."""
    out = list(src)
    i, n = 0, len(src)

    def blank(a, b):
        for k in range(a, b):
            if out[k] != '\n':
                out[k] = ' '

    while i < n:
        c = src[i]
        if c == '/' and i + 1 < n and src[i + 1] == '/':
            j = src.find('\n', i)
            j = n if j < 0 else j
            blank(i, j)
            i = j
        elif c == '/' and i + 1 < n and src[i + 1] == '*':
            depth, j = 1, i + 2
            while j < n and depth:
                if src.startswith('/*', j):
                    depth += 1; j += 2
                elif src.startswith('*/', j):
                    depth -= 1; j += 2
                else:
                    j += 1
            blank(i, j)
            i = j
        elif c == '"':
            j = i + 1
            while j < n and src[j] != '"':
                j += 2 if src[j] == '\\' else 1
            blank(i + 1, j)
            i = j + 1
        elif c == 'r' and re.match(r'r#*"', src[i:i + 8]) and (i == 0 or not (src[i - 1].isalnum() or src[i - 1] == '_')):
            m = re.match(r'r(#*)"', src[i:])
            close = '"' + m.group(1)
            j = src.find(close, i + len(m.group(0)))
            j = n if j < 0 else j
            blank(i + len(m.group(0)), j)
            i = j + len(close)
        elif c == "'":
            # char literal or lifetime
            if i + 1 < n and src[i + 1] == '\\':
                j = src.find("'", i + 2)
                blank(i + 1, j)
                i = j + 1
            elif i + 2 < n and src[i + 2] == "'":
                blank(i + 1, i + 2)
                i += 3
            else:
                i += 1  # lifetime
        else:
            i += 1
    return ''.join(out)


OPEN = {'(': ')', '[': ']', '{': '}'}
CLOSE = {v: k for k, v in OPEN.items()}


def match_close(m: str, i: int) -> int:
    """m[i] is an opening bracket; return index of its matching closer."""
    assert m[i] in OPEN, (m[i], i)
    depth = 0
    for j in range(i, len(m)):
        ch = m[j]
        if ch in OPEN:
            depth += 1
        elif ch in CLOSE:
            depth -= 1
            if depth == 0:
                return j
    raise ValueError('unbalanced bracket at %d' % i)


def find_body_open(m: str, i: int, stop=None) -> int:
    """From position i (inside an item/loop header) find the '{' that opens the body: the first
    '{' at paren/bracket depth 0.  Returns -1 if a ';' at depth 0 comes first (declaration)."""
    depth = 0
    j = i
    stop = len(m) if stop is None else stop
    while j < stop:
        ch = m[j]
        if ch in '([':
            depth += 1
        elif ch in ')]':
            depth -= 1
        elif ch == '{' and depth == 0:
            return j
        elif ch == ';' and depth == 0:
            return -1
        j += 1
    raise ValueError('no body found from %d' % i)


def find_decl_end(m: str, i: int) -> int:
    """index of the ';' at bracket depth 0 that ends a body-less declaration starting at i"""
    depth = 0
    for j in range(i, len(m)):
        ch = m[j]
        if ch in '([{':
            depth += 1
        elif ch in ')]}':
            depth -= 1
        elif ch == ';' and depth == 0:
            return j
    raise ValueError('no terminating ; from %d' % i)


def line_of(src: str, off: int) -> int:
    return src.count('\n', 0, off) + 1


class Span:
    """An item located in a file: [start, end) covers header..closing brace (or ';');
    body_open/body_close are the brace offsets (or -1 for declarations)."""
    def __init__(self, start, body_open, body_close, end):
        self.start, self.body_open, self.body_close, self.end = start, body_open, body_close, end


def find_item(m: str, header_re: str, lo=0, hi=None, nth=1):
    """Locate an item whose header matches header_re inside m[lo:hi]. The span starts at the
    beginning of the match. Returns Span or None."""
    hi = len(m) if hi is None else hi
    it = list(re.finditer(header_re, m[lo:hi]))
    if len(it) < nth:
        return None
    mt = it[nth - 1]
    start = lo + mt.start()
    bo = find_body_open(m, lo + mt.end() - 1 if m[lo + mt.end() - 1] == '{' else lo + mt.end(), hi)
    if bo < 0:
        semi = find_decl_end(m, lo + mt.end())
        return Span(start, -1, -1, semi + 1)
    bc = match_close(m, bo)
    return Span(start, bo, bc, bc + 1)


def find_fn(m: str, name: str, lo=0, hi=None):
    """Locate `fn name` (with its leading qualifiers on the same line) inside m[lo:hi]."""
    hi = len(m) if hi is None else hi
    pat = r'(?m)^[ \t]*((?:pub(?:\([a-z]+\))?[ \t]+)?(?:const[ \t]+)?fn[ \t]+' + re.escape(name) + r')\b'
    hits = list(re.finditer(pat, m[lo:hi]))
    if not hits:
        return None
    if len(hits) > 1:
        raise ValueError('ambiguous fn %s (%d hits)' % (name, len(hits)))
    mt = hits[0]
    start = lo + mt.start(1)
    bo = find_body_open(m, lo + mt.end(), hi)
    if bo < 0:
        semi = find_decl_end(m, lo + mt.end())
        return Span(start, -1, -1, semi + 1)
    bc = match_close(m, bo)
    return Span(start, bo, bc, bc + 1)


LOOP_RE = re.compile(r'\b(while|for|loop)\b')


def find_loops(m: str, lo: int, hi: int):
    """Loops inside m[lo:hi] in textual order: list of (kw_offset, body_open, body_close)."""
    res = []
    for mt in LOOP_RE.finditer(m, lo, hi):
        kw = mt.group(1)
        k = mt.start()
        # skip `for` used in closures like `.for_each` (word boundary already), `impl X for Y`
        prev = m[max(lo, k - 1):k]
        if prev == '.' or prev == '_':
            continue
        if kw == 'for':
            # must be followed by a pattern and ' in '
            tail = m[mt.end():mt.end() + 200]
            if not re.match(r'\s+[^;{}]*?\bin\b', tail):
                continue
        try:
            bo = find_body_open(m, mt.end(), hi)
        except ValueError:
            continue
        if bo < 0:
            continue
        if kw == 'loop' and m[mt.end():bo].strip() != '':
            continue
        bc = match_close(m, bo)
        res.append((k, bo, bc))
    return res


CLOSURE_RE = re.compile(r'\|\s*([A-Za-z_][A-Za-z0-9_]*|\([^|]*\)|&?[A-Za-z_][A-Za-z0-9_]*)\s*\|')


def find_closures(m: str, lo: int, hi: int):
    """Closures `|x| body` in m[lo:hi] in textual order: (bar_start, header_end, body_start, body_end, param).
    Body extends to the enclosing call's closing bracket or a depth-0 comma; a `{...}` body is its block."""
    res = []
    pos = lo
    while True:
        mt = CLOSURE_RE.search(m, pos, hi)
        if not mt:
            break
        # heuristics: a closure header is preceded by '(' or ',' or '=' (ignoring whitespace)
        k = mt.start() - 1
        while k >= lo and m[k] in ' \t\n':
            k -= 1
        if k < lo or m[k] not in '(,=':
            pos = mt.start() + 1
            continue
        bs = mt.end()
        while m[bs] in ' \t\n':
            bs += 1
        if m[bs] == '{':
            be = match_close(m, bs) + 1
        else:
            depth, j = 0, bs
            while j < hi:
                ch = m[j]
                if ch in OPEN:
                    depth += 1
                elif ch in CLOSE:
                    if depth == 0:
                        break
                    depth -= 1
                elif ch in ',;' and depth == 0:
                    break
                j += 1
            be = j
            while m[be - 1] in ' \t\n':
                be -= 1
        res.append((mt.start(), mt.end(), bs, be, mt.group(1)))
        pos = mt.end()
    return res
