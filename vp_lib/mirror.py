"""Mechanical extraction of /repo/src into one Verus input file (mirror.rs).

The template contracts/mirror.rs.in fixes the module layout; `//@@` directives pull items out of
the current working tree *verbatim* and splice the contract clauses of contracts/*.vc into them.
Every textual change other than an insertion is a rewrite and is counted per run."""
import os, re, json, hashlib
from . import rustscan as rs
from .contracts import load_all

SRC_FILES = ['lib.rs', 'helpers.rs', 'ntt.rs', 'high_low.rs', 'conversion.rs', 'encodings.rs',
             'hashing.rs', 'ml_dsa.rs', 'traits.rs', 'types.rs']


class ToolError(Exception):
    """Extraction / anchoring problem: never a property violation (exit 2)."""


class Source:
    def __init__(self, repo, name):
        self.name = name
        self.path = os.path.join(repo, 'src', name)
        self.text = open(self.path).read()
        self.mask = rs.mask(self.text)

    def line(self, off):
        return rs.line_of(self.text, off)


# ---- global rewrites: (id, regex on masked text, replacement or callable, description)
GLOBAL_REWRITES = [
    ('R5a', re.compile(r'\bpub\(crate\)'), 'pub', 'pub(crate) -> pub'),
    ('R5b', re.compile(r'(?m)^[ \t]*#\[(?:allow|must_use|deprecated|cfg\(feature = "[^"]*"\)|inline)[^\]]*\][ \t]*\n?'), '',
     'attribute dropped'),
    ('R5c', re.compile(r'(?m)^([ \t]*)const (?=[A-Z_0-9]+\s*:[^;\n]*=)'), lambda m: m.group(1) + 'pub const ', 'const -> pub const'),
    ('R1', re.compile(r'\.to_le_bytes\(\)\[0\]'), '.le0()', 'x.to_le_bytes()[0] -> x.le0() (assumed: x mod 256)'),
    ('R1b', re.compile(r'\b([a-z_][a-z0-9_]*)\.to_le_bytes\(\)(?!\[0\])'), lambda m: 'le_bytes2(%s)' % m.group(1),
     'n.to_le_bytes() (u16) -> le_bytes2(n) (assumed little-endian byte pair)'),
    ('R2', re.compile(r'\|_\|'), '|_e|', 'closure parameter _ -> _e'),
    ('R13', re.compile(r'<&\[u8; (\d+)\]>::try_from\(([^\n]*?)\)\.expect\("[^"\n]*"\)'),
     lambda m: 'vp_as_array::<%s>(%s)' % (m.group(1), m.group(2)),
     '<&[u8;N]>::try_from(s).expect(..) -> vp_as_array::<N>(s) (assumed: succeeds iff s.len()==N, which becomes a precondition)'),
    ('R3b', re.compile(r'(key_gen::<CTEST, K, L, PK_LEN, SK_LEN)>'), lambda m: m.group(1) + ', _>',
     'explicit generic list of key_gen gets a trailing `_` for the generic that replaces `impl CryptoRngCore` (R3)'),
    ('R12', re.compile(r'\b(i32|i64|usize)::from\('), lambda m: '<%s as VpFrom<_>>::vp_from(' % m.group(1),
     'T::from(x) -> <T as VpFrom<_>>::vp_from(x) (assumed: lossless widening conversion, prelude VpFrom)'),
]


class Edit:
    def __init__(self, start, end, new, rule, tags=None, cfile=None, cline=None, linetags=None):
        self.start, self.end, self.new, self.rule = start, end, new, rule
        self.tags, self.cfile, self.cline, self.linetags = tags, cfile, cline, linetags


class Builder:
    def __init__(self, repo, vdir, canary=None, force_trusted=None):
        self.repo, self.vdir = repo, vdir
        self.force_trusted = set(force_trusted or [])   # fn keys whose body Verus cannot ingest on this tree: body dropped for this run
        self.canary = canary          # None, or predicate(contract) -> bool: insert `assert(false)` canaries
        self.canaries = []            # (key, instance, where)
        self.modconsts = []           # parameter-set constants written as literals in the template (checked natively)
        self.const_checks = []        # fn-local consts replaced by literals: verified natively by const evaluation
        self.src = {n: Source(repo, n) for n in SRC_FILES}
        self.contracts = load_all(os.path.join(vdir, 'contracts'))
        self.used = set()
        self.out = []          # list of (line_text, origin)
        self.fns = []          # dict(key, instance, mode, props, first_line, last_line, file, src_line, kani)
        self.rewrites = []     # dict(rule, file, line, old, new, fn)
        self.problems = []     # anchor problems (ToolError candidates)
        self.instance = ''     # current module path for fn naming

    # ------------------------------------------------------------------ template
    def build(self, template_path):
        tl = open(template_path).read().split('\n')
        for idx, ln in enumerate(tl):
            st = ln.strip()
            if st.startswith('//@@'):
                self.directive(st[4:].strip(), template_path, idx + 1)
            else:
                self.emit(ln, {'kind': 'template', 'file': os.path.basename(template_path), 'line': idx + 1})
        unused = [k for k in self.contracts if k not in self.used]
        if unused:
            raise ToolError('contracts never spliced (function not found / not in template): ' + ', '.join(unused))
        return self

    def emit(self, text, origin):
        self.out.append((text, origin))

    def directive(self, d, tpath, tline):
        parts = d.split(None, 1)
        cmd, arg = parts[0], (parts[1] if len(parts) > 1 else '')
        if cmd == 'include':
            ip = os.path.join(self.vdir, 'contracts', arg.strip())
            for k, ln in enumerate(open(ip).read().split('\n')):
                self.emit(ln, {'kind': 'template', 'file': arg.strip(), 'line': k + 1})
        elif cmd == 'expect':
            m = re.match(r'(\S+)\s+`(.*)`\s*$', arg)
            src = self.src[m.group(1)]
            if len(re.findall(m.group(2), src.text)) != 1:
                raise ToolError('expected source text not found exactly once in %s: %s' % (m.group(1), m.group(2)))
        elif cmd == 'modconsts':
            a = arg.split()
            self.modconsts.append(dict(module=a[0], values=dict(x.split('=') for x in a[1:])))
        elif cmd == 'instance':
            self.instance = arg.strip()
        elif cmd == 'fn':
            # fn <file> <name> [prefix]
            a = arg.split()
            self.extract_fn(a[0], a[1], a[2] if len(a) > 2 else os.path.splitext(a[0])[0])
        elif cmd == 'item':
            # item <file> <prefix> [in <scope-regex>] :: <header-regex>
            m = re.match(r'(\S+)\s+(\S+)\s+(?:in\s+`(.*?)`\s+)?::\s*`(.*)`\s*$', arg)
            if not m:
                raise ToolError('bad item directive at %s:%d' % (tpath, tline))
            self.extract_item(m.group(1), m.group(2), m.group(3), m.group(4))
        elif cmd == 'consts':
            m = re.match(r'(\S+)\s+`(.*)`\s*$', arg)
            self.extract_consts(m.group(1), m.group(2))
        else:
            raise ToolError('unknown directive %s at %s:%d' % (cmd, tpath, tline))

    # ------------------------------------------------------------------ extraction
    def scope(self, s, scope_re):
        if not scope_re:
            return 0, len(s.mask)
        sp = rs.find_item(s.mask, scope_re)
        if sp is None:
            raise ToolError('scope %r not found in %s' % (scope_re, s.name))
        return sp.body_open + 1, sp.body_close

    def extract_fn(self, fname, name, prefix):
        s = self.src[fname]
        sp = rs.find_fn(s.mask, name)
        if sp is None:
            raise ToolError('fn %s not found in %s' % (name, fname))
        edits = self.fn_edits(s, sp, prefix + '::' + name)
        self.render(s, sp.start, sp.end, edits)

    def extract_item(self, fname, prefix, scope_re, header_re):
        s = self.src[fname]
        lo, hi = self.scope(s, scope_re)
        sp = rs.find_item(s.mask, header_re, lo, hi)
        if sp is None:
            raise ToolError('item %r not found in %s' % (header_re, fname))
        edits = []
        ic = self.contracts.get(prefix + '::@item')
        if ic is not None:
            # item-level insertions / rewrites (e.g. spec fns injected into a trait or impl block)
            self.used.add(prefix + '::@item')
            t = s.text
            for (kind, arg), lines in ic.ats:
                cnt = t.count(arg, sp.start, sp.end)
                if kind not in ('before', 'after') or cnt != 1:
                    self.problems.append('%s::@item: anchor `%s` occurs %d times' % (prefix, arg, cnt))
                    continue
                pos = t.index(arg, sp.start, sp.end)
                pos = pos if kind == 'before' else pos + len(arg)
                txt = '\n' + '\n'.join(x[1] for x in lines) + '\n'
                edits.append(Edit(pos, pos, txt, 'contract', cfile=os.path.basename(ic.path), cline=ic.line,
                                  linetags=[None] + [x[0] for x in lines] + [None]))
            for rx, tmpl in ic.rewrites_re:
                hits = list(re.finditer(rx, t[sp.start:sp.end], re.S))
                if len(hits) != 1:
                    self.problems.append('%s::@item: rewrite_re `%s` matches %d times' % (prefix, rx, len(hits)))
                    continue
                mt = hits[0]
                newt = mt.expand(tmpl) if tmpl else ''
                edits.append(Edit(sp.start + mt.start(), sp.start + mt.end(), newt, 'explicit-re', cfile=os.path.basename(ic.path), cline=ic.line))
                self.rewrites.append(dict(rule='explicit', file=s.name, line=s.line(sp.start + mt.start()), fn=prefix + '::@item', old=mt.group(0), new=newt))
        mfn = re.match(r'(?:pub(?:\([a-z]+\))?\s+)?(?:const\s+)?fn\s+([A-Za-z_][A-Za-z0-9_]*)', s.mask[sp.start:sp.start + 200])
        if mfn:
            # the item itself is a function (e.g. a free fn inside the macro body)
            edits += self.fn_edits(s, sp, prefix + '::' + mfn.group(1))
        elif sp.body_open >= 0:
            # every fn inside the item that has a contract gets it; others are copied verbatim
            for mt in re.finditer(r'\bfn\s+([A-Za-z_][A-Za-z0-9_]*)', s.mask[sp.body_open:sp.body_close]):
                nm = mt.group(1)
                fsp = rs.find_fn(s.mask, nm, sp.body_open, sp.body_close)
                if fsp is None:
                    continue
                edits += self.fn_edits(s, fsp, prefix + '::' + nm, required=False)
        self.render(s, sp.start, sp.end, edits)

    def extract_consts(self, fname, header_re):
        """`pub mod ml_dsa_44 { const ...; functionality!(); }` -> the const lines only."""
        s = self.src[fname]
        sp = rs.find_item(s.mask, header_re)
        if sp is None:
            raise ToolError('module %r not found in %s' % (header_re, fname))
        body = s.mask[sp.body_open + 1:sp.body_close]
        for mt in re.finditer(r'(?m)^[ \t]*(?:pub\s+)?const\s+[A-Z0-9_]+\s*:[^;]*;', body):
            a = sp.body_open + 1 + mt.start()
            b = sp.body_open + 1 + mt.end()
            self.render(s, a, b, [])

    # ------------------------------------------------------------------ contracts -> edits
    def fn_edits(self, s, sp, key, required=False):
        c = self.contracts.get(key)
        m, t = s.mask, s.text
        edits = []
        fnrec = {'key': key, 'instance': self.instance, 'file': s.name, 'src_line': s.line(sp.start),
                 'mode': 'verbatim', 'props': [], 'kani': [], 'span': (sp.start, sp.end)}
        self.fns.append(fnrec)
        # R11: `const X: T = E;` inside a fn body -> `let X: T = E;` (same value; E's arithmetic becomes proof obligations)
        if sp.body_open >= 0 and not (c is not None and c.mode in ('trusted', 'proved-kani')):
            skipc = set(n for n, _ in (c.rewrites_const if c is not None else []))
            for mt in re.finditer(r'(?m)^([ \t]*)const (?=([A-Z_0-9]+)\s*:)', m[sp.body_open:sp.body_close]):
                if mt.group(2) in skipc:
                    continue
                a0 = sp.body_open + mt.start()
                edits.append(Edit(a0, sp.body_open + mt.end(), mt.group(1) + 'let ', 'R11'))
                self.rewrites.append(dict(rule='R11', file=s.name, line=s.line(a0), fn=key, old='const', new='let',
                                          desc='fn-local const -> let'))
        # R3: `x: &mut impl CryptoRngCore` -> named generic (Verus cannot mention `impl Trait` parameters in specs)
        sig_end0 = sp.body_open if sp.body_open >= 0 else sp.end - 1
        mt = re.search(r'&mut impl CryptoRngCore', m[sp.start:sig_end0])
        if mt and not (c is not None and c.sig is not None):
            a0 = sp.start + mt.start()
            edits.append(Edit(a0, sp.start + mt.end(), '&mut VpG', 'R3'))
            mn = re.search(r'\bfn\s+[A-Za-z_0-9]+', m[sp.start:sig_end0])
            pos = sp.start + mn.end()
            if m[pos] == '<':
                # append as the LAST generic parameter so that explicit turbofish lists only need a trailing `_`
                depth, q = 0, pos
                while True:
                    if m[q] == '<':
                        depth += 1
                    elif m[q] == '>':
                        depth -= 1
                        if depth == 0:
                            break
                    q += 1
                k2 = q - 1
                while m[k2] in ' \t\n':
                    k2 -= 1
                edits.append(Edit(q, q, ('' if m[k2] == ',' else ', ') + 'VpG: CryptoRngCore', 'R3'))
            else:
                edits.append(Edit(pos, pos, '<VpG: CryptoRngCore>', 'R3'))
            self.rewrites.append(dict(rule='R3', file=s.name, line=s.line(a0), fn=key, old='&mut impl CryptoRngCore', new='<VpG: CryptoRngCore> ... &mut VpG'))
        if key in self.force_trusted:
            fnrec['mode'] = 'unverifiable'
            if c is None and sp.body_open >= 0:
                edits.append(Edit(sp.start, sp.start, '#[verifier::external_body]\n', 'forced'))
                edits.append(Edit(sp.body_open + 1, sp.body_close, ' unimplemented!() ', 'body-dropped(unverifiable)'))
                return [e for e in edits if e.rule in ('forced', 'body-dropped(unverifiable)', 'R3')]
        if c is None:
            return edits
        self.used.add(key)
        fnrec.update(mode=c.mode, props=c.props, kani=c.kani, note=c.note)
        ck = dict(cfile=os.path.basename(c.path), cline=c.line)

        def ins(pos, lines, rule='contract'):
            """lines: list of (tags, text)"""
            txt = '\n' + '\n'.join(x[1] for x in lines) + '\n'
            edits.append(Edit(pos, pos, txt, rule, linetags=[None] + [x[0] for x in lines] + [None], **ck))

        sig_end = sp.body_open if sp.body_open >= 0 else sp.end - 1
        # --- attributes
        attrs = list(c.attrs)
        forced = key in self.force_trusted
        if c.mode in ('trusted', 'proved-kani') or forced:
            attrs.append('#[verifier::external_body]')
        if attrs:
            edits.append(Edit(sp.start, sp.start, '\n'.join(attrs) + '\n', 'contract', **ck))
        # --- signature
        if c.sig is not None:
            edits.append(Edit(sp.start, sig_end, c.sig.strip() + '\n', 'R6-sig', **ck))
            self.rewrites.append(dict(rule='R6-sig', file=s.name, line=s.line(sp.start), fn=key,
                                      old=t[sp.start:sig_end].strip(), new=c.sig.strip()))
        elif c.ret:
            # name the return value: `-> TYPE` => `-> (ret: TYPE)`
            depth, arrow = 0, -1
            for j in range(sp.start, sig_end):
                ch = m[j]
                if ch in '([<' and not (ch == '<' and m[j - 1] == '-'):
                    depth += 1
                elif ch in ')]' or (ch == '>' and m[j - 1] != '-'):
                    depth -= 1
                elif ch == '-' and m[j + 1] == '>' and depth == 0:
                    arrow = j
            if arrow < 0:
                raise ToolError('no return type to name in ' + key)
            a = arrow + 2
            while m[a] in ' \t\n':
                a += 1
            b = sig_end
            mw = re.search(r'\bwhere\b', m[a:sig_end])
            if mw:
                b = a + mw.start()
            while m[b - 1] in ' \t\n':
                b -= 1
            edits.append(Edit(a, a, '(' + c.ret + ': ', 'contract', **ck))
            edits.append(Edit(b, b, ')', 'contract', **ck))
        # --- requires / ensures / decreases
        spec = []
        if c.requires:
            spec += [((), '    requires')] + c.requires
        if c.ensures:
            spec += [((), '    ensures')] + c.ensures
        if c.decreases:
            spec += [((), '    decreases ' + c.decreases)]
        if spec:
            ins(sig_end, spec)
        if sp.body_open < 0:
            return edits
        if c.mode in ('trusted', 'proved-kani') or forced:
            body = c.body if c.body is not None else ' unimplemented!() '
            # R11 edits live inside the body that is being dropped
            edits[:] = [e for e in edits if not (sp.body_open < e.start < sp.body_close)]
            edits.append(Edit(sp.body_open + 1, sp.body_close, body, 'body-dropped(' + ('unverifiable' if forced else c.mode) + ')', **ck))
            if forced:
                fnrec['mode'] = 'unverifiable'
            return edits
        lo, hi = sp.body_open + 1, sp.body_close
        # --- explicit rewrites
        for old, new, allp in c.rewrites:
            cnt = t.count(old, sp.start, sp.end)
            if cnt == 0 or (cnt != 1 and not allp):
                self.problems.append('%s: rewrite anchor `%s` occurs %d times' % (key, old, cnt))
                continue
            p = sp.start
            for _ in range(cnt):
                p = t.index(old, p, sp.end)
                edits.append(Edit(p, p + len(old), new, 'R4/R7/R8(explicit)', **ck))
                self.rewrites.append(dict(rule='explicit', file=s.name, line=s.line(p), fn=key, old=old, new=new))
                p += len(old)
        for cname, cval in c.rewrites_const:
            mt = re.search(r'const\s+' + cname + r'\s*:\s*([A-Za-z0-9_]+)\s*=\s*([^;]*);', t[sp.start:sp.end])
            if not mt:
                self.problems.append('%s: rewrite_const `%s` not found' % (key, cname))
                continue
            new = 'let %s: %s = %s;' % (cname, mt.group(1), cval)
            edits.append(Edit(sp.start + mt.start(), sp.start + mt.end(), new, 'explicit-const', **ck))
            self.rewrites.append(dict(rule='explicit', file=s.name, line=s.line(sp.start + mt.start()), fn=key, old=mt.group(0), new=new))
            self.const_checks.append(dict(fn=key, name=cname, ty=mt.group(1), expr=mt.group(2).strip(), value=cval))
        for rx, tmpl in c.rewrites_re:
            hits = list(re.finditer(rx, t[sp.start:sp.end], re.S))
            if len(hits) != 1:
                self.problems.append('%s: rewrite_re `%s` matches %d times' % (key, rx, len(hits)))
                continue
            mt = hits[0]
            new = mt.expand(tmpl) if tmpl else ''
            edits.append(Edit(sp.start + mt.start(), sp.start + mt.end(), new, 'explicit-re', **ck))
            self.rewrites.append(dict(rule='explicit', file=s.name, line=s.line(sp.start + mt.start()), fn=key,
                                      old=mt.group(0), new=new))
        dead = [(e.start, e.end) for e in edits if e.end > e.start and e.rule.startswith(('R4', 'explicit')) and not e.new.strip()]

        def alive(pos):
            return not any(x <= pos < y for x, y in dead)
        rewritten = [(e.start, e.end) for e in edits if e.end > e.start and e.rule.startswith(('R4', 'explicit'))]

        def alive_cl(pos):
            return not any(x <= pos < y for x, y in rewritten)
        # --- loops
        loops = [l for l in rs.find_loops(m, lo, hi) if alive(l[0])]
        for n, lines in c.loops.items():
            if n > len(loops):
                self.problems.append('%s: loop %d not found (%d loops)' % (key, n, len(loops)))
                continue
            kw, bo, bc = loops[n - 1]
            ins(bo, lines)
        # --- closures
        cls = [c_ for c_ in rs.find_closures(m, lo, hi) if alive_cl(c_[0])]
        for n, (header, lines) in c.closures.items():
            if n > len(cls):
                self.problems.append('%s: closure %d not found (%d closures)' % (key, n, len(cls)))
                continue
            bar, hend, bs, be, param = cls[n - 1]
            block = m[bs] == '{'
            mh = re.match(r'\((.*)\)\s*->\s*(\(.*\))\s*$', header)
            if not mh:
                raise ToolError('bad closure header in %s closure %d: %r' % (key, n, header))
            newh = '|' + mh.group(1) + '| -> ' + mh.group(2)
            edits.append(Edit(bar, hend, newh, 'R9', **ck))
            self.rewrites.append(dict(rule='R9', file=s.name, line=s.line(bar), fn=key, old=t[bar:hend], new=newh))
            # lines after a `--` marker are proof text placed just inside the closure body
            split = [i for i, (tg, tx) in enumerate(lines) if tx.strip() == '--']
            spec_l, proof_l = (lines[:split[0]], lines[split[0] + 1:]) if split else (lines, [])
            if block:
                ins(bs, spec_l)
                if proof_l:
                    ins(bs + 1, proof_l)
            else:
                ins(bs, spec_l + [((), '{')] + proof_l)
                edits.append(Edit(be, be, ' }', 'R9', **ck))
        # --- vacuity canaries (separate run only): `assert(false)` at the start of the body and of every loop body
        if self.canary is not None and self.canary(c):
            ins(lo, [((), '    proof { assert(false); } // CANARY %s body' % key)], rule='canary')
            self.canaries.append((key, self.instance, 'body'))
            for li, (kw, bo, bc) in enumerate(loops):
                ins(bo + 1, [((), '    proof { assert(false); } // CANARY %s loop%d' % (key, li + 1))], rule='canary')
                self.canaries.append((key, self.instance, 'loop%d' % (li + 1)))
        # --- positional insertions
        for (kind, arg), lines in c.ats:
            if kind in ('each before', 'each after'):
                # the same ghost text at every occurrence of the anchor (at least one)
                p, cnt = lo, 0
                while True:
                    p = t.find(arg, p, hi)
                    if p < 0:
                        break
                    ins(p if kind == 'each before' else p + len(arg), lines)
                    p += len(arg); cnt += 1
                if cnt == 0:
                    self.problems.append('%s: anchor `%s` not found' % (key, arg))
            elif kind in ('before', 'after'):
                cnt = t.count(arg, lo, hi)
                if cnt != 1:
                    self.problems.append('%s: anchor `%s` occurs %d times' % (key, arg, cnt))
                    continue
                p = t.index(arg, lo, hi)
                ins(p if kind == 'before' else p + len(arg), lines)
            else:
                if arg == 'body.start':
                    ins(lo, lines)
                elif arg == 'body.end':
                    ins(hi, lines)
                elif arg == 'body.tail':
                    # just before the tail expression: after the last `;` at the body's own brace depth (no text of the tail is named,
                    # so a change to the tail expression cannot lose this anchor)
                    depth, last = 0, None
                    for q in range(lo, hi):
                        ch = s.mask[q]
                        if ch in '([{':
                            depth += 1
                        elif ch in ')]}':
                            depth -= 1
                        elif ch == ';' and depth == 0:
                            last = q
                    if last is None:
                        self.problems.append('%s: body.tail: no statement before the tail expression' % key)
                    else:
                        ins(last + 1, lines)
                else:
                    mm = re.match(r'loop (\d+)\.(start|end|after)', arg)
                    n = int(mm.group(1))
                    if n > len(loops):
                        self.problems.append('%s: loop %d not found' % (key, n))
                        continue
                    kw, bo, bc = loops[n - 1]
                    ins({'start': bo + 1, 'end': bc, 'after': bc + 1}[mm.group(2)], lines)
        return edits

    # ------------------------------------------------------------------ rendering
    def render(self, s, a, b, edits):
        m, t = s.mask, s.text
        # global rewrites inside [a,b) that do not collide with explicit edits
        explicit = [(e.start, e.end) for e in edits if e.end > e.start]  # replaced spans win over global rules
        for rid, rx, rep, desc in GLOBAL_REWRITES:
            for mt in rx.finditer(m, a, b):
                if any(not (mt.end() <= x or mt.start() >= y) for x, y in explicit):
                    continue
                new = rep(mt) if callable(rep) else rep
                edits.append(Edit(mt.start(), mt.end(), new, rid))
                self.rewrites.append(dict(rule=rid, file=s.name, line=s.line(mt.start()), old=t[mt.start():mt.end()].strip(),
                                          new=new.strip(), fn=None, desc=desc))
        edits.sort(key=lambda e: (e.start, e.end))
        for x, y in zip(edits, edits[1:]):
            if y.start < x.end:
                raise ToolError('overlapping edits in %s at line %d (%s / %s)' % (s.name, s.line(y.start), x.rule, y.rule))
        pieces = []  # (text, origin-maker)
        pos = a
        for e in edits:
            if e.start > pos:
                pieces.append(('src', t[pos:e.start], pos, None))
            if e.new:
                pieces.append(('ins', e.new, None, e))
            pos = max(pos, e.end)
        if pos < b:
            pieces.append(('src', t[pos:b], pos, None))
        # flatten into lines
        first_line = len(self.out) + 1
        cur, cur_origin = '', None
        for kind, text, off, e in pieces:
            segs = text.split('\n')
            for i, seg in enumerate(segs):
                if i > 0:
                    self.emit(cur, cur_origin or {'kind': 'src', 'file': s.name, 'line': None})
                    cur, cur_origin = '', None
                cur += seg
                if seg.strip():
                    if kind == 'src':
                        ln = s.line(off + sum(len(x) + 1 for x in segs[:i]))
                        if cur_origin is None:
                            cur_origin = {'kind': 'src', 'file': s.name, 'line': ln}
                    else:
                        tags = None
                        if e.linetags and i < len(e.linetags):
                            tags = e.linetags[i]
                        cur_origin = {'kind': 'contract', 'file': e.cfile, 'line': e.cline, 'tags': list(tags) if tags else None,
                                      'rule': e.rule}
        self.emit(cur, cur_origin or {'kind': 'src', 'file': s.name, 'line': None})
        last_line = len(self.out)
        # attribute line ranges to the fns rendered in this unit
        for f in self.fns:
            if 'first_line' in f or f['file'] != s.name:
                continue
            fa, fb = f['span']
            if fa >= a and fb <= b:
                # find mirror lines whose src origin lies within the fn's source lines
                l0, l1 = s.line(fa), s.line(fb - 1)
                idxs = [k for k in range(first_line - 1, last_line)
                        if self.out[k][1].get('kind') == 'src' and self.out[k][1].get('line') and l0 <= self.out[k][1]['line'] <= l1]
                if idxs:
                    k0 = idxs[0]
                    # the spliced header (signature with named return, requires/ensures) precedes the first verbatim source line
                    while k0 - 1 >= first_line - 1 and self.out[k0 - 1][1].get('kind') == 'contract' and not any(
                            g is not f and g.get('last_line') == k0 for g in self.fns):
                        k0 -= 1
                    f['first_line'], f['last_line'] = k0 + 1, idxs[-1] + 1

    # ------------------------------------------------------------------ output
    def text(self):
        return '\n'.join(x[0] for x in self.out) + '\n'

    def origin(self, line):
        if 1 <= line <= len(self.out):
            return self.out[line - 1][1]
        return {'kind': 'unknown'}

    def fn_at(self, line):
        best = None
        for f in self.fns:
            if 'first_line' in f and f['first_line'] - 3 <= line <= f['last_line']:
                if best is None or (f['last_line'] - f['first_line']) < (best['last_line'] - best['first_line']):
                    best = f
        return best


def build_mirror(repo='/repo', vdir='/verif', out_path=None, canary=None, force_trusted=None):
    b = Builder(repo, vdir, canary, force_trusted).build(os.path.join(vdir, 'contracts', 'mirror.rs.in'))
    if out_path:
        with open(out_path, 'w') as fh:
            fh.write(b.text())
    return b
